package main

import (
	"fmt"
	"go/ast"
	"go/parser"
	"go/token"
	"path/filepath"
	"strconv"
	"strings"
)

// WsTables: the message-type tables of the two websocket subprotocols and the frame-write sites of
// the websocket transport, translated from /repo/graphql/handler/transport/websocket*.go:
//
//   - the internal `messageType` iota block                        -> inductive MT
//   - `all<Proto>MessageTypes`                                      -> def <proto>All : List String
//   - `func (m <proto>Message) toMessage()` switch                  -> def <proto>ToMessage : String -> Option MT
//   - `func (m *<proto>Message) fromMessage(msg)` switch            -> def <proto>FromMessage : MT -> Option (Option String)
//        (none = "invalid server->client message type" error, some none = noOp, some (some w) = wire type w)
//   - every call that writes to the socket in websocket.go (c.me.Send, *.WriteMessage, *.WriteJSON,
//     *.WriteControl) with its enclosing function and whether it lies lexically between
//     c.mu.Lock() and c.mu.Unlock()                                 -> def writeSites
//   - the close codes passed to c.close(...) per function          -> def closeSites
//
// The translator refuses (exit 1) anything that does not have exactly these shapes.

func init() { extractors["WsTables"] = extractWsTables }

var leanKeywords = map[string]bool{"end": true, "at": true, "from": true, "open": true, "in": true, "do": true, "then": true, "else": true, "if": true, "fun": true, "let": true, "have": true, "show": true, "by": true, "with": true, "match": true, "where": true, "namespace": true, "section": true, "import": true, "def": true, "theorem": true}

func parseFile(repo, name string) (*token.FileSet, *ast.File, error) {
	fset := token.NewFileSet()
	f, err := parser.ParseFile(fset, filepath.Join(repo, "graphql/handler/transport", name), nil, 0)
	return fset, f, err
}

func mtName(goName string) (string, error) {
	if !strings.HasSuffix(goName, "MessageType") {
		return "", fmt.Errorf("internal message type constant %s does not end in MessageType", goName)
	}
	n := strings.TrimSuffix(goName, "MessageType")
	if n == "" || leanKeywords[n] {
		return "", fmt.Errorf("cannot use %q as a Lean constructor name", n)
	}
	return n, nil
}

type protoTables struct {
	lean   string // gqlws | tws
	prefix string // Go identifier prefix
	file   string
}

func extractWsTables(repo string) (string, error) {
	var b strings.Builder
	b.WriteString("namespace GqlgenVerif.Gen.WsTables\n\n")

	// ---- internal message types
	_, f, err := parseFile(repo, "websocket_subprotocol.go")
	if err != nil {
		return "", err
	}
	var mts []string
	mtSet := map[string]string{}
	for _, d := range f.Decls {
		gd, ok := d.(*ast.GenDecl)
		if !ok || gd.Tok != token.CONST || len(gd.Specs) == 0 {
			continue
		}
		first := gd.Specs[0].(*ast.ValueSpec)
		if id, ok := first.Type.(*ast.Ident); !ok || id.Name != "messageType" {
			continue
		}
		if len(first.Values) != 1 {
			return "", fmt.Errorf("messageType const block: first value is not iota")
		}
		if id, ok := first.Values[0].(*ast.Ident); !ok || id.Name != "iota" {
			return "", fmt.Errorf("messageType const block: first value is not iota")
		}
		for i, s := range gd.Specs {
			vs := s.(*ast.ValueSpec)
			if len(vs.Names) != 1 || (i > 0 && (len(vs.Values) != 0 || vs.Type != nil)) {
				return "", fmt.Errorf("messageType const block: unexpected spec shape at %d", i)
			}
			n, err := mtName(vs.Names[0].Name)
			if err != nil {
				return "", err
			}
			mts = append(mts, n)
			mtSet[vs.Names[0].Name] = n
		}
	}
	if len(mts) == 0 {
		return "", fmt.Errorf("messageType iota block not found")
	}
	b.WriteString("/-- websocket_subprotocol.go: the internal `messageType` constants, in iota order -/\n")
	b.WriteString("inductive MT where\n")
	for _, m := range mts {
		b.WriteString("  | " + m + "\n")
	}
	b.WriteString("  deriving DecidableEq, Repr, Hashable\n\n")
	b.WriteString("def allMT : List MT := [" + joinPref(mts, ".") + "]\n\n")

	// ---- per subprotocol tables
	for _, p := range []protoTables{
		{"gqlws", "graphqlws", "websocket_graphqlws.go"},
		{"tws", "graphqltransportws", "websocket_graphql_transport_ws.go"},
	} {
		_, f, err := parseFile(repo, p.file)
		if err != nil {
			return "", err
		}
		consts := map[string]string{} // Go const name -> wire string
		sub := ""
		for _, d := range f.Decls {
			gd, ok := d.(*ast.GenDecl)
			if !ok || gd.Tok != token.CONST {
				continue
			}
			for _, s := range gd.Specs {
				vs := s.(*ast.ValueSpec)
				if len(vs.Names) != 1 || len(vs.Values) != 1 {
					return "", fmt.Errorf("%s: unexpected const spec", p.file)
				}
				switch v := vs.Values[0].(type) {
				case *ast.BasicLit:
					if vs.Names[0].Name == p.prefix+"Subprotocol" {
						sub, _ = strconv.Unquote(v.Value)
					}
				case *ast.CallExpr:
					fn, ok := v.Fun.(*ast.Ident)
					if !ok || fn.Name != p.prefix+"MessageType" || len(v.Args) != 1 {
						return "", fmt.Errorf("%s: const %s is not %sMessageType(\"…\")", p.file, vs.Names[0].Name, p.prefix)
					}
					lit, ok := v.Args[0].(*ast.BasicLit)
					if !ok || lit.Kind != token.STRING {
						return "", fmt.Errorf("%s: const %s is not a string literal", p.file, vs.Names[0].Name)
					}
					consts[vs.Names[0].Name], _ = strconv.Unquote(lit.Value)
				default:
					return "", fmt.Errorf("%s: unexpected const value for %s", p.file, vs.Names[0].Name)
				}
			}
		}
		if sub == "" {
			return "", fmt.Errorf("%s: subprotocol name constant not found", p.file)
		}
		// all…MessageTypes
		var all []string
		foundAll := false
		for _, d := range f.Decls {
			gd, ok := d.(*ast.GenDecl)
			if !ok || gd.Tok != token.VAR {
				continue
			}
			for _, s := range gd.Specs {
				vs := s.(*ast.ValueSpec)
				if len(vs.Names) == 1 && strings.EqualFold(vs.Names[0].Name, "all"+p.prefix+"MessageTypes") && len(vs.Values) == 1 {
					cl, ok := vs.Values[0].(*ast.CompositeLit)
					if !ok {
						return "", fmt.Errorf("%s: %s is not a composite literal", p.file, vs.Names[0].Name)
					}
					for _, e := range cl.Elts {
						id, ok := e.(*ast.Ident)
						if !ok || consts[id.Name] == "" {
							return "", fmt.Errorf("%s: element of %s is not a known constant", p.file, vs.Names[0].Name)
						}
						all = append(all, consts[id.Name])
					}
					foundAll = true
				}
			}
		}
		if !foundAll {
			return "", fmt.Errorf("%s: all…MessageTypes not found", p.file)
		}
		// the NextMessage / Send / UnmarshalText wiring the model relies on
		if err := checkExchanger(f, p); err != nil {
			return "", err
		}
		var toArms, fromArms []string
		for _, d := range f.Decls {
			fd, ok := d.(*ast.FuncDecl)
			if !ok || fd.Recv == nil {
				continue
			}
			switch fd.Name.Name {
			case "toMessage":
				sw, err := theSwitch(fd, "m", "Type")
				if err != nil {
					return "", fmt.Errorf("%s toMessage: %v", p.file, err)
				}
				for _, c := range sw.Body.List {
					cc := c.(*ast.CaseClause)
					if cc.List == nil { // default: err = …
						if !assignsTo(cc.Body, "err") {
							return "", fmt.Errorf("%s toMessage: default arm does not set err", p.file)
						}
						continue
					}
					if len(cc.List) != 1 || len(cc.Body) != 1 {
						return "", fmt.Errorf("%s toMessage: unexpected case shape", p.file)
					}
					k, ok := cc.List[0].(*ast.Ident)
					if !ok || consts[k.Name] == "" {
						return "", fmt.Errorf("%s toMessage: case label is not a wire constant", p.file)
					}
					as, ok := cc.Body[0].(*ast.AssignStmt)
					if !ok || len(as.Lhs) != 1 || len(as.Rhs) != 1 || identName(as.Lhs[0]) != "t" || mtSet[identName(as.Rhs[0])] == "" {
						return "", fmt.Errorf("%s toMessage: arm %s is not `t = <messageType>`", p.file, k.Name)
					}
					toArms = append(toArms, fmt.Sprintf("if w = %s then some .%s", strconv.Quote(consts[k.Name]), mtSet[identName(as.Rhs[0])]))
				}
			case "fromMessage":
				sw, err := theSwitch(fd, "msg", "t")
				if err != nil {
					return "", fmt.Errorf("%s fromMessage: %v", p.file, err)
				}
				seen := map[string]bool{}
				for _, c := range sw.Body.List {
					cc := c.(*ast.CaseClause)
					if cc.List == nil {
						if !assignsTo(cc.Body, "err") {
							return "", fmt.Errorf("%s fromMessage: default arm does not set err", p.file)
						}
						continue
					}
					if len(cc.List) != 1 || len(cc.Body) != 1 {
						return "", fmt.Errorf("%s fromMessage: unexpected case shape", p.file)
					}
					k := mtSet[identName(cc.List[0])]
					as, ok := cc.Body[0].(*ast.AssignStmt)
					if k == "" || !ok || len(as.Lhs) != 1 || len(as.Rhs) != 1 || seen[k] {
						return "", fmt.Errorf("%s fromMessage: unexpected arm", p.file)
					}
					seen[k] = true
					sel, ok := as.Lhs[0].(*ast.SelectorExpr)
					if !ok || identName(sel.X) != "m" {
						return "", fmt.Errorf("%s fromMessage: arm %s does not assign to m.…", p.file, k)
					}
					switch sel.Sel.Name {
					case "Type":
						w := consts[identName(as.Rhs[0])]
						if w == "" {
							return "", fmt.Errorf("%s fromMessage: arm %s assigns an unknown wire type", p.file, k)
						}
						fromArms = append(fromArms, fmt.Sprintf("  | .%s => some (some %s)", k, strconv.Quote(w)))
					case "noOp":
						if identName(as.Rhs[0]) != "true" {
							return "", fmt.Errorf("%s fromMessage: arm %s: noOp not set to true", p.file, k)
						}
						fromArms = append(fromArms, fmt.Sprintf("  | .%s => some none", k))
					default:
						return "", fmt.Errorf("%s fromMessage: arm %s assigns m.%s", p.file, k, sel.Sel.Name)
					}
				}
				if len(seen) < len(mts) {
					fromArms = append(fromArms, "  | _ => none")
				}
			}
		}
		if len(toArms) == 0 || len(fromArms) == 0 {
			return "", fmt.Errorf("%s: toMessage/fromMessage not found", p.file)
		}
		fmt.Fprintf(&b, "/-- %s -/\ndef %sSubprotocol : String := %s\n", p.file, p.lean, strconv.Quote(sub))
		fmt.Fprintf(&b, "def %sAll : List String := [%s]\n", p.lean, quoteAll(all))
		fmt.Fprintf(&b, "/-- `toMessage`: wire type -> internal type; `none` = \"invalid client->server message type\" -/\n")
		fmt.Fprintf(&b, "def %sToMessage (w : String) : Option MT :=\n  %s\n  else none\n", p.lean, strings.Join(toArms, "\n  else "))
		fmt.Fprintf(&b, "/-- `fromMessage`: `none` = error, `some none` = noOp (nothing is written), `some (some w)` = frame of wire type w -/\n")
		fmt.Fprintf(&b, "def %sFromMessage : MT → Option (Option String)\n%s\n\n", p.lean, strings.Join(fromArms, "\n"))
	}

	// ---- write sites and close sites of websocket.go
	fset, f, err := parseFile(repo, "websocket.go")
	if err != nil {
		return "", err
	}
	_ = fset
	var sites, closes, sections, closeSecs []string
	for _, d := range f.Decls {
		fd, ok := d.(*ast.FuncDecl)
		if !ok || fd.Body == nil {
			continue
		}
		w := &lockWalker{fn: fd.Name.Name}
		w.block(fd.Body.List, false)
		sites = append(sites, w.sites...)
		closes = append(closes, w.closes...)
		for _, r := range w.regions {
			for _, c := range r {
				if c == "delete(c.active)" || c == "c.active[id]=" {
					sections = append(sections, fmt.Sprintf("(%s, [%s])", strconv.Quote(fd.Name.Name), quoteAll(r)))
					break
				}
			}
		}
		if fd.Name.Name == "close" {
			for _, r := range w.regions {
				closeSecs = append(closeSecs, "["+quoteAll(r)+"]")
			}
			for _, c := range w.free {
				if strings.HasPrefix(c, "c.closed") || strings.HasPrefix(c, "if c.closed") || strings.HasPrefix(c, "range c.active") {
					closeSecs = append(closeSecs, "["+quoteAll([]string{"UNLOCKED " + c})+"]")
				}
			}
		}
		for _, c := range w.free {
			if c == "delete(c.active)" || c == "c.active[id]=" {
				sections = append(sections, fmt.Sprintf("(%s, [%s])", strconv.Quote(fd.Name.Name), quoteAll([]string{"UNLOCKED " + c})))
			}
		}
	}
	arm, err := startArm(f)
	if err != nil {
		return "", err
	}
	if len(sites) == 0 {
		return "", fmt.Errorf("websocket.go: no socket write found")
	}
	b.WriteString("/-- websocket.go: every call that writes to the socket: (enclosing function, callee, lexically between c.mu.Lock() and c.mu.Unlock()) -/\n")
	b.WriteString("def writeSites : List (String × String × Bool) := [\n  " + strings.Join(sites, ",\n  ") + "]\n\n")
	b.WriteString("/-- websocket.go: every `c.close(code, …)` call: (enclosing function, close code) -/\n")
	b.WriteString("def closeSites : List (String × Nat) := [\n  " + strings.Join(closes, ",\n  ") + "]\n\n")
	b.WriteString("/-- websocket.go: every critical section that changes `c.active`, with the socket writes it contains, in order -/\n")
	b.WriteString("def activeSections : List (String × List String) := [\n  " + strings.Join(sections, ",\n  ") + "]\n\n")
	b.WriteString("/-- websocket.go: the critical sections of `close()`: what happens under the lock, in order -/\n")
	b.WriteString("def closeSections : List (List String) := [" + strings.Join(closeSecs, ", ") + "]\n\n")
	b.WriteString("/-- websocket.go: the statements of `case startMessageType:` in run() -/\n")
	b.WriteString("def startArm : List String := [" + quoteAll(arm) + "]\n\n")
	b.WriteString("end GqlgenVerif.Gen.WsTables\n")
	return b.String(), nil
}

func joinPref(xs []string, pref string) string {
	ys := make([]string, len(xs))
	for i, x := range xs {
		ys[i] = pref + x
	}
	return strings.Join(ys, ", ")
}

func quoteAll(xs []string) string {
	ys := make([]string, len(xs))
	for i, x := range xs {
		ys[i] = strconv.Quote(x)
	}
	return strings.Join(ys, ", ")
}

func identName(e ast.Expr) string {
	if id, ok := e.(*ast.Ident); ok {
		return id.Name
	}
	return ""
}

func assignsTo(body []ast.Stmt, name string) bool {
	if len(body) != 1 {
		return false
	}
	as, ok := body[0].(*ast.AssignStmt)
	return ok && len(as.Lhs) == 1 && identName(as.Lhs[0]) == name
}

// theSwitch finds the single `switch <recv>.<field> { … }` of a function.
func theSwitch(fd *ast.FuncDecl, x, field string) (*ast.SwitchStmt, error) {
	var found *ast.SwitchStmt
	n := 0
	for _, s := range fd.Body.List {
		if sw, ok := s.(*ast.SwitchStmt); ok {
			n++
			found = sw
		}
	}
	if n != 1 {
		return nil, fmt.Errorf("expected exactly one switch, found %d", n)
	}
	sel, ok := found.Tag.(*ast.SelectorExpr)
	if !ok || identName(sel.X) != x || sel.Sel.Name != field || found.Init != nil {
		return nil, fmt.Errorf("switch is not over %s.%s", x, field)
	}
	return found, nil
}

// checkExchanger: NextMessage must decode and then call toMessage (decode failures -> errInvalidMsg),
// UnmarshalText must accept exactly the members of all…MessageTypes, Send must call fromMessage,
// return early on error and on noOp, and otherwise WriteJSON.
func checkExchanger(f *ast.File, p protoTables) error {
	want := map[string][]string{
		"NextMessage":   {"NextReader", "handleNextReaderError", "jsonDecode", "errInvalidMsg", "toMessage"},
		"Send":          {"fromMessage", "noOp", "WriteJSON"},
		"UnmarshalText": {"all" + p.prefix + "MessageTypes"},
	}
	got := map[string]bool{}
	for _, d := range f.Decls {
		fd, ok := d.(*ast.FuncDecl)
		if !ok || fd.Recv == nil || want[fd.Name.Name] == nil {
			continue
		}
		names := map[string]bool{}
		ast.Inspect(fd.Body, func(n ast.Node) bool {
			if id, ok := n.(*ast.Ident); ok {
				names[strings.ToLower(id.Name)] = true
			}
			return true
		})
		for _, w := range want[fd.Name.Name] {
			if !names[strings.ToLower(w)] {
				return fmt.Errorf("%s: %s no longer mentions %s", p.file, fd.Name.Name, w)
			}
		}
		got[fd.Name.Name] = true
	}
	for k := range want {
		if !got[k] {
			return fmt.Errorf("%s: method %s not found", p.file, k)
		}
	}
	return nil
}

// lockWalker walks statements in order, tracking whether c.mu is held (lexically).
type lockWalker struct {
	fn      string
	sites   []string
	closes  []string
	regions [][]string // ordered notable calls of every c.mu critical section
	cur     []string
	free    []string // notable calls outside any critical section
}

func (w *lockWalker) notable(name string, locked bool) {
	if locked {
		w.cur = append(w.cur, name)
	} else {
		w.free = append(w.free, name)
	}
}

func callName(c *ast.CallExpr) string {
	var parts []string
	e := c.Fun
	for {
		switch x := e.(type) {
		case *ast.SelectorExpr:
			parts = append([]string{x.Sel.Name}, parts...)
			e = x.X
			continue
		case *ast.Ident:
			parts = append([]string{x.Name}, parts...)
		}
		break
	}
	return strings.Join(parts, ".")
}

func (w *lockWalker) exprs(n ast.Node, locked bool) {
	ast.Inspect(n, func(n ast.Node) bool {
		switch x := n.(type) {
		case *ast.FuncLit:
			// a closure runs later / elsewhere: it starts without the lock
			w.block(x.Body.List, false)
			return false
		case *ast.CallExpr:
			name := callName(x)
			last := name[strings.LastIndex(name, ".")+1:]
			if name == "delete" && len(x.Args) == 2 {
				if sel, ok := x.Args[0].(*ast.SelectorExpr); ok && identName(sel.X) == "c" && sel.Sel.Name == "active" {
					w.notable("delete(c.active)", locked)
				}
			}
			if name == "c.me.Send" || name == "c.conn.WriteMessage" {
				w.notable(name, locked)
			}
			switch {
			case name == "c.me.Send", last == "WriteMessage", last == "WriteJSON", last == "WriteControl", last == "NextWriter", last == "WritePreparedMessage":
				w.sites = append(w.sites, fmt.Sprintf("(%s, %s, %v)", strconv.Quote(w.fn), strconv.Quote(name), locked))
			case name == "c.close":
				code := "0"
				if len(x.Args) == 2 {
					switch a := x.Args[0].(type) {
					case *ast.SelectorExpr:
						code = map[string]string{"CloseNormalClosure": "1000", "CloseProtocolError": "1002"}[a.Sel.Name]
					case *ast.Ident:
						code = map[string]string{"closeSubscriberAlreadyExists": "4409"}[a.Name]
					case *ast.BasicLit:
						code = a.Value
					}
				}
				if code == "" {
					code = "0"
				}
				w.closes = append(w.closes, fmt.Sprintf("(%s, %s)", strconv.Quote(w.fn), code))
			}
		}
		return true
	})
}

func (w *lockWalker) block(stmts []ast.Stmt, locked bool) bool {
	for _, s := range stmts {
		switch x := s.(type) {
		case *ast.ExprStmt:
			if c, ok := x.X.(*ast.CallExpr); ok {
				switch callName(c) {
				case "c.mu.Lock":
					locked = true
					w.cur = nil
					continue
				case "c.mu.Unlock":
					locked = false
					w.regions = append(w.regions, w.cur)
					w.cur = nil
					continue
				}
			}
			w.exprs(x, locked)
		case *ast.BlockStmt:
			locked = w.block(x.List, locked)
		case *ast.IfStmt:
			if x.Init != nil {
				w.exprs(x.Init, locked)
			}
			w.exprs(x.Cond, locked)
			if sel, ok := x.Cond.(*ast.SelectorExpr); ok && identName(sel.X) == "c" && sel.Sel.Name == "closed" {
				w.notable("if c.closed", locked)
			}
			saved := append([]string(nil), w.cur...)
			nreg := len(w.regions)
			l1 := w.block(x.Body.List, locked)
			if endsInReturn(x.Body.List) {
				// the early-exit branch (unlock; return) does not end the critical section of the fall-through path
				w.cur = saved
				w.regions = w.regions[:nreg]
			}
			l2 := locked
			if x.Else != nil {
				switch e := x.Else.(type) {
				case *ast.BlockStmt:
					l2 = w.block(e.List, locked)
				default:
					l2 = w.block([]ast.Stmt{e}, locked)
				}
			}
			// a branch that unlocks and returns does not change the state of the fall-through path
			if endsInReturn(x.Body.List) {
				locked = l2
			} else if l1 != l2 {
				locked = false // conservatively: not held
			} else {
				locked = l1
			}
		case *ast.ForStmt:
			if x.Init != nil {
				w.exprs(x.Init, locked)
			}
			if x.Cond != nil {
				w.exprs(x.Cond, locked)
			}
			w.block(x.Body.List, locked)
		case *ast.RangeStmt:
			w.exprs(x.X, locked)
			if sel, ok := x.X.(*ast.SelectorExpr); ok && identName(sel.X) == "c" && sel.Sel.Name == "active" {
				calls := ""
				if len(x.Body.List) == 1 {
					if es, ok := x.Body.List[0].(*ast.ExprStmt); ok {
						if c, ok := es.X.(*ast.CallExpr); ok && len(c.Args) == 0 && x.Value != nil && identName(c.Fun) == identName(x.Value) {
							calls = " call value"
						}
					}
				}
				w.notable("range c.active"+calls, locked)
			}
			w.block(x.Body.List, locked)
		case *ast.SwitchStmt:
			if x.Init != nil {
				w.exprs(x.Init, locked)
			}
			if x.Tag != nil {
				w.exprs(x.Tag, locked)
			}
			for _, c := range x.Body.List {
				w.block(c.(*ast.CaseClause).Body, locked)
			}
		case *ast.SelectStmt:
			for _, c := range x.Body.List {
				cc := c.(*ast.CommClause)
				if cc.Comm != nil {
					w.exprs(cc.Comm, locked)
				}
				w.block(cc.Body, locked)
			}
		case *ast.AssignStmt:
			for i, l := range x.Lhs {
				if sel, ok := l.(*ast.SelectorExpr); ok && identName(sel.X) == "c" && sel.Sel.Name == "closed" && i < len(x.Rhs) {
					w.notable("c.closed="+identName(x.Rhs[i]), locked)
				}
				if ix, ok := l.(*ast.IndexExpr); ok {
					if sel, ok := ix.X.(*ast.SelectorExpr); ok && identName(sel.X) == "c" && sel.Sel.Name == "active" {
						w.notable("c.active[id]=", locked)
					}
				}
			}
			w.exprs(s, locked)
		default:
			w.exprs(s, locked)
		}
	}
	return locked
}

// startArm describes the `case startMessageType:` clause of run(): the duplicate-id test must read
// c.active under the lock, refuse with a close and return, and only then call c.subscribe.
func startArm(f *ast.File) ([]string, error) {
	var out []string
	found := false
	for _, d := range f.Decls {
		fd, ok := d.(*ast.FuncDecl)
		if !ok || fd.Name.Name != "run" || fd.Body == nil {
			continue
		}
		ast.Inspect(fd.Body, func(n ast.Node) bool {
			cc, ok := n.(*ast.CaseClause)
			if !ok || len(cc.List) != 1 || identName(cc.List[0]) != "startMessageType" {
				return true
			}
			found = true
			locked := false
			for _, st := range cc.Body {
				switch x := st.(type) {
				case *ast.ExprStmt:
					if c, ok := x.X.(*ast.CallExpr); ok {
						switch callName(c) {
						case "c.mu.Lock":
							locked = true
						case "c.mu.Unlock":
							locked = false
						case "c.subscribe":
							out = append(out, "subscribe")
						default:
							out = append(out, "call:"+callName(c))
						}
					}
				case *ast.AssignStmt:
					reads := false
					ast.Inspect(x, func(n ast.Node) bool {
						if ix, ok := n.(*ast.IndexExpr); ok {
							if sel, ok := ix.X.(*ast.SelectorExpr); ok && identName(sel.X) == "c" && sel.Sel.Name == "active" && callNameOfIndex(ix) == "m.id" {
								reads = true
							}
						}
						return true
					})
					if reads {
						out = append(out, fmt.Sprintf("lookup c.active[m.id] locked=%v", locked))
					}
				case *ast.IfStmt:
					lw := &lockWalker{fn: "run"}
					lw.block(x.Body.List, locked)
					code := ""
					if len(lw.closes) == 1 {
						code = lw.closes[0][strings.LastIndex(lw.closes[0], ",")+2 : len(lw.closes[0])-1]
					}
					cond := identName(x.Cond)
					out = append(out, fmt.Sprintf("if %s: close %s return=%v", cond, code, endsInReturn(x.Body.List)))
				default:
					out = append(out, fmt.Sprintf("stmt:%T", st))
				}
			}
			return false
		})
	}
	if !found {
		return nil, fmt.Errorf("websocket.go: run() has no `case startMessageType:`")
	}
	return out, nil
}

func callNameOfIndex(ix *ast.IndexExpr) string {
	if sel, ok := ix.Index.(*ast.SelectorExpr); ok {
		return identName(sel.X) + "." + sel.Sel.Name
	}
	return ""
}

func endsInReturn(stmts []ast.Stmt) bool {
	if len(stmts) == 0 {
		return false
	}
	_, ok := stmts[len(stmts)-1].(*ast.ReturnStmt)
	return ok
}
