package main

import (
	"fmt"
	"go/ast"
	"go/parser"
	"go/token"
	"path/filepath"
	"strings"
)

// IndexDefs (C18): the guards of the loop in codegen/config/binder.go indexDefs, which builds the binder's
// name -> types.Object index of a model package by ranging over the MAP pkg.TypesInfo.Defs and writing
// res[<ident>.Name] - an index keyed by the identifier's NAME, so the loop is order independent only as long as its
// guards keep identifiers whose names cannot collide: those of the package scope.
//
//	scope := pkg.Types.Scope()
//	for astNode, def := range pkg.TypesInfo.Defs {
//	    if def == nil { continue }
//	    parent := def.Parent()
//	    if parent == nil || parent != scope { continue }
//	    if _, ok := res[astNode.Name]; !ok { res[astNode.Name] = def }
//	}
//
// becomes
//
//	def skips : List Cond := [.defNil, .or .parentNil .parentNeScope]
//	def firstWins : Bool := true
//
// Recognised in the loop body: `x := <value>.Parent()` (alias), `if <cond> { continue }` with <cond> built with
// && || ! ( ) from `<value> ==|!= nil`, `<parent> ==|!= nil`, `<parent> ==|!= <scope>` (<parent> = `<value>.Parent()`
// or its alias, <scope> = `pkg.Types.Scope()` or a variable assigned from it before the loop), and as LAST statement
// either `if _, ok := res[<key>.Name]; !ok { res[<key>.Name] = <value> }` (first wins) or the bare assignment (last
// wins). Anything else fails (broken tie). Props/C18Bind.lean proves from the regenerated guards that only package
// scope definitions are indexed (indexDefs_keeps_package_scope_only) and hence indexDefs_perm_invariant.
func init() { extractors["IndexDefs"] = extractIndexDefs }

type idCtx struct {
	fset     *token.FileSet
	key, val string
	parents  map[string]bool // expressions that are the value's parent scope
	scopes   map[string]bool // expressions that are the package scope
}

func (c *idCtx) cond(e ast.Expr) (string, error) {
	switch x := e.(type) {
	case *ast.ParenExpr:
		return c.cond(x.X)
	case *ast.UnaryExpr:
		if x.Op == token.NOT {
			a, err := c.cond(x.X)
			if err != nil {
				return "", err
			}
			return "(.not " + a + ")", nil
		}
	case *ast.BinaryExpr:
		switch x.Op {
		case token.LAND, token.LOR:
			a, err := c.cond(x.X)
			if err != nil {
				return "", err
			}
			b, err := c.cond(x.Y)
			if err != nil {
				return "", err
			}
			op := ".and"
			if x.Op == token.LOR {
				op = ".or"
			}
			return "(" + op + " " + a + " " + b + ")", nil
		case token.EQL, token.NEQ:
			l, r := mrNodeStr(c.fset, x.X), mrNodeStr(c.fset, x.Y)
			if l == "nil" || c.scopes[l] {
				l, r = r, l
			}
			atom := ""
			switch {
			case l == c.val && r == "nil":
				atom = ".defNil"
			case c.parents[l] && r == "nil":
				atom = ".parentNil"
			case c.parents[l] && c.scopes[r]:
				atom = ".parentEqScope"
			}
			if atom == "" {
				break
			}
			if x.Op == token.NEQ {
				if atom == ".parentEqScope" {
					return ".parentNeScope", nil
				}
				return "(.not " + atom + ")", nil
			}
			return atom, nil
		}
	}
	return "", fmt.Errorf("condition not understood: %s", mrNodeStr(c.fset, e))
}

func idTrim(s string) string { return strings.TrimSuffix(strings.TrimPrefix(s, "("), ")") }

func extractIndexDefs(repo string) (string, error) {
	fset := token.NewFileSet()
	f, err := parser.ParseFile(fset, filepath.Join(repo, "codegen/config/binder.go"), nil, 0)
	if err != nil {
		return "", err
	}
	var fn *ast.FuncDecl
	for _, d := range f.Decls {
		if fd, ok := d.(*ast.FuncDecl); ok && fd.Recv == nil && fd.Name.Name == "indexDefs" {
			fn = fd
		}
	}
	if fn == nil || fn.Body == nil {
		return "", fmt.Errorf("func indexDefs not found in codegen/config/binder.go")
	}
	var loops []*ast.RangeStmt
	ast.Inspect(fn.Body, func(n ast.Node) bool {
		if rs, ok := n.(*ast.RangeStmt); ok {
			loops = append(loops, rs)
		}
		return true
	})
	if len(loops) != 1 || !strings.HasSuffix(mrNodeStr(fset, loops[0].X), ".TypesInfo.Defs") {
		return "", fmt.Errorf("indexDefs: expected exactly one loop, over <pkg>.TypesInfo.Defs")
	}
	loop := loops[0]
	k, ok1 := loop.Key.(*ast.Ident)
	v, ok2 := loop.Value.(*ast.Ident)
	if !ok1 || !ok2 {
		return "", fmt.Errorf("indexDefs: the loop needs a key and a value variable")
	}
	pkgVar := strings.TrimSuffix(mrNodeStr(fset, loop.X), ".TypesInfo.Defs")
	scopeExpr := pkgVar + ".Types.Scope()"
	c := &idCtx{fset: fset, key: k.Name, val: v.Name, parents: map[string]bool{v.Name + ".Parent()": true}, scopes: map[string]bool{scopeExpr: true}}
	for _, st := range fn.Body.List {
		if st.Pos() >= loop.Pos() {
			break
		}
		if as, ok := st.(*ast.AssignStmt); ok && as.Tok == token.DEFINE && len(as.Lhs) == 1 && len(as.Rhs) == 1 && mrNodeStr(fset, as.Rhs[0]) == scopeExpr {
			c.scopes[mrNodeStr(fset, as.Lhs[0])] = true
		}
	}
	slot := "res[" + c.key + ".Name]"
	var skips []string
	firstWins := ""
	for i, st := range loop.Body.List {
		last := i == len(loop.Body.List)-1
		switch x := st.(type) {
		case *ast.AssignStmt:
			if !last && x.Tok == token.DEFINE && len(x.Lhs) == 1 && len(x.Rhs) == 1 && c.parents[mrNodeStr(fset, x.Rhs[0])] {
				c.parents[mrNodeStr(fset, x.Lhs[0])] = true
				continue
			}
			if last && x.Tok == token.ASSIGN && len(x.Lhs) == 1 && len(x.Rhs) == 1 && strings.HasSuffix(mrNodeStr(fset, x.Lhs[0]), "["+c.key+".Name]") && mrNodeStr(fset, x.Rhs[0]) == c.val {
				firstWins = "false"
				continue
			}
		case *ast.IfStmt:
			if !last && x.Init == nil && x.Else == nil && len(x.Body.List) == 1 && mrNodeStr(fset, x.Body.List[0]) == "continue" {
				cs, err := c.cond(x.Cond)
				if err != nil {
					return "", fmt.Errorf("indexDefs: %v", err)
				}
				skips = append(skips, idTrim(cs))
				continue
			}
			if last && x.Init != nil && x.Else == nil && len(x.Body.List) == 1 {
				// if _, ok := res[k.Name]; !ok { res[k.Name] = v }
				init := mrNodeStr(fset, x.Init)
				body := mrNodeStr(fset, x.Body.List[0])
				if strings.HasPrefix(init, "_, ") && strings.HasSuffix(init, ":= "+slot) && strings.HasPrefix(mrNodeStr(fset, x.Cond), "!") && body == slot+" = "+c.val {
					firstWins = "true"
					continue
				}
			}
		}
		return "", fmt.Errorf("indexDefs: statement not understood: %s", strings.Join(strings.Fields(mrNodeStr(fset, st)), " "))
	}
	if firstWins == "" {
		return "", fmt.Errorf("indexDefs: the loop does not end with the write res[%s.Name] = %s", c.key, c.val)
	}
	var b strings.Builder
	b.WriteString("import GqlgenVerif.Model.IndexDefs\n")
	b.WriteString("/-! The guards of the loop over TypesInfo.Defs in codegen/config/binder.go indexDefs (go/extract/indexdefs.go). -/\n")
	b.WriteString("namespace GqlgenVerif.Gen.IndexDefs\nopen GqlgenVerif.IndexDefs\n\n")
	fmt.Fprintf(&b, "/-- codegen/config/binder.go:%d: conditions under which the loop `continue`s, in source order -/\n", fset.Position(loop.Pos()).Line)
	fmt.Fprintf(&b, "def skips : List Cond := [%s]\n", strings.Join(skips, ", "))
	fmt.Fprintf(&b, "/-- the write is guarded by `if _, ok := res[name]; !ok` -/\ndef firstWins : Bool := %s\n", firstWins)
	b.WriteString("\nend GqlgenVerif.Gen.IndexDefs\n")
	return b.String(), nil
}
