package main

import (
	"fmt"
	"go/ast"
	"go/parser"
	"go/token"
	"path/filepath"
	"sort"
	"strings"
)

// ExecBuf (C12): who owns the bytes of `graphql.Response.Data` in the GENERATED `Exec`.
//
// -arg is a comma separated list of package directories of servers generated at check time from the
// current templates (both template flavours). In each, `func (e *executableSchema) Exec` switches on the
// operation kind; every arm returns the response handler `func(ctx context.Context) *graphql.Response`,
// which marshals into a `bytes.Buffer` and hands `buf.Bytes()` to `Data`. Per arm:
//
//	fresh        the buffer is declared INSIDE the handler literal (a new buffer per response) - otherwise it
//	             is declared outside and shared by all responses of the operation (`buf.Reset()` per call), so a
//	             response that is still held by someone (the multipart aggregator keeps pointers between two
//	             flush ticks) changes when the next one is built;
//	freshResp    the `*graphql.Response` the handler returns is a new object per call (`&response` with
//	             `var response graphql.Response` declared inside the handler, or `&graphql.Response{…}`) - otherwise
//	             every pointer a transport holds is the same object;
//	setsHasNext  the handler sets `HasNext` (the arm produces incremental payloads).
//
// Fails (broken tie) when Exec, its switch, a handler literal or the declaration of a buffer is not found.
func init() { extractors["ExecBuf"] = extractExecBuf; needsArg["ExecBuf"] = true }

type ebArm struct {
	pkg, arm                      string
	fresh, freshResp, setsHasNext bool
	where              string
}

func ebDeclares(n ast.Node, name string) bool {
	found := false
	ast.Inspect(n, func(m ast.Node) bool {
		switch x := m.(type) {
		case *ast.ValueSpec:
			for _, id := range x.Names {
				if id.Name == name {
					found = true
				}
			}
		case *ast.AssignStmt:
			if x.Tok == token.DEFINE {
				for _, l := range x.Lhs {
					if id, ok := l.(*ast.Ident); ok && id.Name == name {
						found = true
					}
				}
			}
		}
		return !found
	})
	return found
}

// ebDataSources: identifiers X of `Data: X.Bytes()` / `….Data = X.Bytes()` under n
func ebDataSources(n ast.Node) (names []string, other bool) {
	src := func(e ast.Expr) {
		if c, ok := e.(*ast.CallExpr); ok && len(c.Args) == 0 {
			if s, ok := c.Fun.(*ast.SelectorExpr); ok && s.Sel.Name == "Bytes" {
				if id, ok := s.X.(*ast.Ident); ok {
					names = append(names, id.Name)
					return
				}
			}
		}
		other = true
	}
	ast.Inspect(n, func(m ast.Node) bool {
		switch x := m.(type) {
		case *ast.KeyValueExpr:
			if id, ok := x.Key.(*ast.Ident); ok && id.Name == "Data" {
				src(x.Value)
			}
		case *ast.AssignStmt:
			for i, l := range x.Lhs {
				if s, ok := l.(*ast.SelectorExpr); ok && s.Sel.Name == "Data" && i < len(x.Rhs) {
					src(x.Rhs[i])
				}
			}
		}
		return true
	})
	return
}

func ebSetsHasNext(n ast.Node) bool {
	found := false
	ast.Inspect(n, func(m ast.Node) bool {
		switch x := m.(type) {
		case *ast.KeyValueExpr:
			if id, ok := x.Key.(*ast.Ident); ok && id.Name == "HasNext" {
				found = true
			}
		case *ast.AssignStmt:
			for _, l := range x.Lhs {
				if s, ok := l.(*ast.SelectorExpr); ok && s.Sel.Name == "HasNext" {
					found = true
				}
			}
		}
		return !found
	})
	return found
}

// ebReturnsFresh: every non-nil result of the handler literal (not of literals nested in it) is `&X` with X
// declared inside the handler, or `&T{…}`
func ebReturnsFresh(h *ast.FuncLit) (fresh bool, err error) {
	fresh = true
	n := 0
	ast.Inspect(h.Body, func(m ast.Node) bool {
		if _, ok := m.(*ast.FuncLit); ok {
			return false
		}
		r, ok := m.(*ast.ReturnStmt)
		if !ok || len(r.Results) != 1 {
			return true
		}
		if id, ok := r.Results[0].(*ast.Ident); ok && id.Name == "nil" {
			return true
		}
		n++
		u, ok := r.Results[0].(*ast.UnaryExpr)
		if !ok || u.Op != token.AND {
			err = fmt.Errorf("a result that is neither nil nor &…")
			return true
		}
		switch x := u.X.(type) {
		case *ast.CompositeLit:
		case *ast.Ident:
			if !ebDeclares(h.Body, x.Name) {
				fresh = false
			}
		default:
			err = fmt.Errorf("a result &<%T>", u.X)
		}
		return true
	})
	if n == 0 && err == nil {
		err = fmt.Errorf("no non-nil result")
	}
	return
}

func ebPackage(dir string) ([]ebArm, error) {
	files, _ := filepath.Glob(filepath.Join(dir, "*.go"))
	sort.Strings(files)
	fset := token.NewFileSet()
	var exec *ast.FuncDecl
	for _, f := range files {
		if strings.HasSuffix(f, "_test.go") {
			continue
		}
		af, err := parser.ParseFile(fset, f, nil, 0)
		if err != nil {
			return nil, err
		}
		for _, d := range af.Decls {
			fd, ok := d.(*ast.FuncDecl)
			if !ok || fd.Body == nil || fd.Name.Name != "Exec" || fd.Recv == nil || len(fd.Recv.List) != 1 {
				continue
			}
			t := fd.Recv.List[0].Type
			if s, ok := t.(*ast.StarExpr); ok {
				t = s.X
			}
			if id, ok := t.(*ast.Ident); ok && id.Name == "executableSchema" {
				if exec != nil {
					return nil, fmt.Errorf("%s: two executableSchema.Exec", dir)
				}
				exec = fd
			}
		}
	}
	if exec == nil {
		return nil, fmt.Errorf("%s: func (e *executableSchema) Exec not found", dir)
	}
	var sw *ast.SwitchStmt
	ast.Inspect(exec, func(m ast.Node) bool {
		if s, ok := m.(*ast.SwitchStmt); ok && s.Tag != nil && strings.HasSuffix(sfSel(s.Tag), ".Operation.Operation") {
			if sw == nil {
				sw = s
			}
		}
		return true
	})
	if sw == nil {
		return nil, fmt.Errorf("%s: Exec has no switch over the operation kind", dir)
	}
	pkg := filepath.Base(dir)
	var arms []ebArm
	for _, c := range sw.Body.List {
		cc := c.(*ast.CaseClause)
		if len(cc.List) == 0 {
			continue // default: an error response, built once
		}
		name := strings.TrimPrefix(sfSel(cc.List[0]), "ast.")
		// the handler literal: the func literal returned by the arm
		var h *ast.FuncLit
		for _, st := range cc.Body {
			if r, ok := st.(*ast.ReturnStmt); ok && len(r.Results) == 1 {
				if fl, ok := r.Results[0].(*ast.FuncLit); ok {
					h = fl
				}
			}
		}
		if h == nil {
			return nil, fmt.Errorf("%s: arm %s of Exec does not return a func literal", dir, name)
		}
		names, other := ebDataSources(h)
		if other || len(names) == 0 {
			return nil, fmt.Errorf("%s: arm %s of Exec: Data is not taken from <buffer>.Bytes()", dir, name)
		}
		fr, err := ebReturnsFresh(h)
		if err != nil {
			return nil, fmt.Errorf("%s: arm %s of Exec: %v", dir, name, err)
		}
		a := ebArm{pkg: pkg, arm: name, fresh: true, freshResp: fr, setsHasNext: ebSetsHasNext(h), where: fset.Position(cc.Pos()).String()}
		for _, n := range names {
			outside := false
			for _, st := range cc.Body { // the arm, before it returns the handler
				if _, isRet := st.(*ast.ReturnStmt); !isRet && ebDeclares(st, n) {
					outside = true
				}
			}
			for _, st := range exec.Body.List { // Exec, outside the switch
				if !(st.Pos() <= sw.Pos() && sw.End() <= st.End()) && ebDeclares(st, n) {
					outside = true
				}
			}
			switch {
			case ebDeclares(h.Body, n):
			case outside:
				a.fresh = false
			default:
				return nil, fmt.Errorf("%s: arm %s of Exec: declaration of %s not found", dir, name, n)
			}
		}
		arms = append(arms, a)
	}
	if len(arms) == 0 {
		return nil, fmt.Errorf("%s: Exec has no operation arms", dir)
	}
	return arms, nil
}

func extractExecBuf(repo string) (string, error) {
	if Arg == "" {
		return "", fmt.Errorf("ExecBuf needs -arg <generated package dir>[,<dir>…]")
	}
	var b strings.Builder
	b.WriteString("import GqlgenVerif.Model.StreamAlias\nnamespace GqlgenVerif.Gen.ExecBuf\nopen GqlgenVerif.StreamAlias\n\n")
	var rows []string
	var doc []string
	for _, dir := range strings.Split(Arg, ",") {
		arms, err := ebPackage(strings.TrimSpace(dir))
		if err != nil {
			return "", err
		}
		for _, a := range arms {
			rows = append(rows, fmt.Sprintf("  ⟨%q, %q, %v, %v, %v⟩", a.pkg, a.arm, a.fresh, a.freshResp, a.setsHasNext))
			doc = append(doc, fmt.Sprintf("%s %s: %s", a.pkg, a.arm, filepath.Base(a.where)))
		}
	}
	fmt.Fprintf(&b, "/-- arms of the generated `executableSchema.Exec` (package, operation kind, buffer declared inside the response handler, response object new per call, handler sets HasNext): %s -/\ndef execArms : List ExecArm := [\n%s]\n\n", strings.Join(doc, "; "), strings.Join(rows, ",\n"))
	b.WriteString("end GqlgenVerif.Gen.ExecBuf\n")
	return b.String(), nil
}
