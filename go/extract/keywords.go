package main

import (
	"fmt"
	"go/ast"
	"go/parser"
	"go/token"
	"path/filepath"
	"sort"
	"strconv"
	"strings"
)

// Keywords: the tables consulted by the naming functions of codegen/templates/templates.go, as Lean lists:
//
//	var keywords = []string{"break", …}                  -> def keywords : List String
//	var CommonInitialisms = map[string]bool{"ACL": true} -> def commonInitialisms : List String (sorted)
//	sanitizeKeywords: `return name + "Arg"`              -> def sanitizeSuffix : String
//	wordWalker: `switch upperWord { case "ID", "IP": …`  -> def shortInitialisms : List String
//
// Fails when one of them no longer has that literal shape.
func init() { extractors["Keywords"] = extractKeywords }

func kwStrLit(e ast.Expr) (string, bool) {
	bl, ok := e.(*ast.BasicLit)
	if !ok || bl.Kind != token.STRING {
		return "", false
	}
	s, err := strconv.Unquote(bl.Value)
	return s, err == nil
}

func kwLeanStr(s string) string {
	var b strings.Builder
	b.WriteByte('"')
	for _, r := range s {
		switch {
		case r == '"' || r == '\\':
			b.WriteByte('\\')
			b.WriteRune(r)
		case r < 0x20 || r == 0x7f:
			fmt.Fprintf(&b, "\\x%02x", r)
		default:
			b.WriteRune(r)
		}
	}
	b.WriteByte('"')
	return b.String()
}

func kwLeanStrList(xs []string) string {
	q := make([]string, len(xs))
	for i, x := range xs {
		q[i] = kwLeanStr(x)
	}
	return "[" + strings.Join(q, ", ") + "]"
}

func extractKeywords(repo string) (string, error) {
	fset := token.NewFileSet()
	f, err := parser.ParseFile(fset, filepath.Join(repo, "codegen/templates/templates.go"), nil, 0)
	if err != nil {
		return "", err
	}
	var keywords, initialisms, short []string
	var suffix string
	haveKw, haveInit, haveSuffix, haveShort := false, false, false, false
	for _, d := range f.Decls {
		switch d := d.(type) {
		case *ast.GenDecl:
			if d.Tok != token.VAR {
				continue
			}
			for _, sp := range d.Specs {
				vs := sp.(*ast.ValueSpec)
				for i, n := range vs.Names {
					if i >= len(vs.Values) {
						continue
					}
					cl, ok := vs.Values[i].(*ast.CompositeLit)
					switch n.Name {
					case "keywords":
						if !ok {
							return "", fmt.Errorf("keywords is not a composite literal")
						}
						for _, e := range cl.Elts {
							s, ok := kwStrLit(e)
							if !ok {
								return "", fmt.Errorf("keywords: non-literal element")
							}
							keywords = append(keywords, s)
						}
						haveKw = true
					case "CommonInitialisms":
						if !ok {
							return "", fmt.Errorf("CommonInitialisms is not a composite literal")
						}
						for _, e := range cl.Elts {
							kv, ok := e.(*ast.KeyValueExpr)
							if !ok {
								return "", fmt.Errorf("CommonInitialisms: element is not key: value")
							}
							k, ok := kwStrLit(kv.Key)
							v, ok2 := kv.Value.(*ast.Ident)
							if !ok || !ok2 || (v.Name != "true" && v.Name != "false") {
								return "", fmt.Errorf("CommonInitialisms: entry is not \"lit\": true|false")
							}
							if v.Name == "true" {
								initialisms = append(initialisms, k)
							}
						}
						haveInit = true
					}
				}
			}
		case *ast.FuncDecl:
			switch d.Name.Name {
			case "sanitizeKeywords":
				// for _, k := range keywords { if name == k { return name + "<suffix>" } } ; return name
				if len(d.Body.List) != 2 {
					return "", fmt.Errorf("sanitizeKeywords: unexpected body shape")
				}
				rs, ok := d.Body.List[0].(*ast.RangeStmt)
				if !ok || len(rs.Body.List) != 1 {
					return "", fmt.Errorf("sanitizeKeywords: first statement is not the range over keywords")
				}
				if id, ok := rs.X.(*ast.Ident); !ok || id.Name != "keywords" {
					return "", fmt.Errorf("sanitizeKeywords: does not range over keywords")
				}
				is, ok := rs.Body.List[0].(*ast.IfStmt)
				if !ok || len(is.Body.List) != 1 || is.Else != nil {
					return "", fmt.Errorf("sanitizeKeywords: range body is not a single if")
				}
				cond, ok := is.Cond.(*ast.BinaryExpr)
				if !ok || cond.Op != token.EQL {
					return "", fmt.Errorf("sanitizeKeywords: condition is not ==")
				}
				ret, ok := is.Body.List[0].(*ast.ReturnStmt)
				if !ok || len(ret.Results) != 1 {
					return "", fmt.Errorf("sanitizeKeywords: if body is not a return")
				}
				be, ok := ret.Results[0].(*ast.BinaryExpr)
				if !ok || be.Op != token.ADD {
					return "", fmt.Errorf("sanitizeKeywords: return is not name + literal")
				}
				if id, ok := be.X.(*ast.Ident); !ok || id.Name != "name" {
					return "", fmt.Errorf("sanitizeKeywords: return is not name + literal")
				}
				s, ok := kwStrLit(be.Y)
				if !ok {
					return "", fmt.Errorf("sanitizeKeywords: suffix is not a string literal")
				}
				r2, ok := d.Body.List[1].(*ast.ReturnStmt)
				if !ok || len(r2.Results) != 1 {
					return "", fmt.Errorf("sanitizeKeywords: last statement is not return name")
				}
				if id, ok := r2.Results[0].(*ast.Ident); !ok || id.Name != "name" {
					return "", fmt.Errorf("sanitizeKeywords: last statement is not return name")
				}
				suffix, haveSuffix = s, true
			case "wordWalker":
				ast.Inspect(d.Body, func(n ast.Node) bool {
					sw, ok := n.(*ast.SwitchStmt)
					if !ok {
						return true
					}
					if id, ok := sw.Tag.(*ast.Ident); ok && id.Name == "upperWord" {
						if len(sw.Body.List) != 1 {
							return true
						}
						cc := sw.Body.List[0].(*ast.CaseClause)
						var xs []string
						for _, e := range cc.List {
							s, ok := kwStrLit(e)
							if !ok {
								return true
							}
							xs = append(xs, s)
						}
						short, haveShort = xs, true
					}
					return true
				})
			}
		}
	}
	if !haveKw || !haveInit || !haveSuffix || !haveShort {
		return "", fmt.Errorf("templates.go: missing keywords=%v CommonInitialisms=%v sanitizeKeywords=%v wordWalker-switch=%v",
			haveKw, haveInit, haveSuffix, haveShort)
	}
	sort.Strings(initialisms)
	var b strings.Builder
	b.WriteString("/-! `templates.keywords`, `templates.CommonInitialisms`, the suffix appended by `sanitizeKeywords` and the\n")
	b.WriteString("two-letter initialisms special-cased by `wordWalker` (codegen/templates/templates.go). -/\n")
	b.WriteString("namespace GqlgenVerif.Gen.Keywords\n\n")
	fmt.Fprintf(&b, "def keywords : List String := %s\n\n", kwLeanStrList(keywords))
	fmt.Fprintf(&b, "def commonInitialisms : List String := %s\n\n", kwLeanStrList(initialisms))
	fmt.Fprintf(&b, "def sanitizeSuffix : String := %s\n\n", kwLeanStr(suffix))
	fmt.Fprintf(&b, "def shortInitialisms : List String := %s\n\n", kwLeanStrList(short))
	b.WriteString("end GqlgenVerif.Gen.Keywords\n")
	return b.String(), nil
}
