package main

import (
	"fmt"
	"go/ast"
	"go/parser"
	"go/token"
	"os"
	"path/filepath"
	"sort"
	"strings"
)

// CollectAlias (C07): what graphql/executable_schema.go collectFields does with the selection slices of the
// parsed document - the document is shared by every request with the same text once it is in the query cache,
// so a CollectedField must never hold (a slice header into) one of the document's backing arrays.
//
//	(a) the `case *ast.Field:` arm of collectFields, statement by statement, in the vocabulary of
//	    Model/CollectAlias.lean: `if !shouldIncludeNode(…) { continue }`, `f := getOrCreateAndAppendField(…,
//	    func() CollectedField { return CollectedField{…} })` with how the literal initialises Selections,
//	    `f.Selections = <rhs>` (conditional or not); anything else is `.other`;
//	(b) every `CollectedField{…}` literal and every assignment to a `.Selections` in package graphql
//	    (non-test files): how Selections is initialised / what is stored, and where the appended elements come
//	    from (the document, or a CollectedField the recursive call built);
//	(c) that getOrCreateAndAppendField returns pointers into the caller's own slice and stores nothing else.
//
// Fails (broken tie) if collectFields has no type switch with a `*ast.Field` arm any more.
func init() { extractors["CollectAlias"] = extractCollectAlias }

// caRhs classifies the right-hand side of `<x>.Selections = rhs`
func caRhs(lhs, rhs ast.Expr) (kind, src string) {
	l := sfSel(lhs)
	if c, ok := rhs.(*ast.CallExpr); ok {
		if id, ok := c.Fun.(*ast.Ident); ok && id.Name == "append" && len(c.Args) == 2 && c.Ellipsis.IsValid() && sfSel(c.Args[0]) == l {
			return ".appendSelf", sfSel(c.Args[1])
		}
	}
	if id, ok := rhs.(*ast.Ident); ok && id.Name == "nil" {
		return ".setNil", ""
	}
	return ".assign", sfSel(rhs)
}

func caSrcKind(src string, docVars, collectedVars map[string]bool) string {
	parts := strings.Split(src, ".")
	if len(parts) == 2 && parts[1] == "SelectionSet" && docVars[parts[0]] {
		return ".document"
	}
	if len(parts) == 2 && parts[1] == "Selections" && collectedVars[parts[0]] {
		return ".collected"
	}
	return ".unknown"
}

// caInit: how a CollectedField literal initialises Selections
func caInit(cl *ast.CompositeLit, docVars map[string]bool) string {
	for _, el := range cl.Elts {
		kv, ok := el.(*ast.KeyValueExpr)
		if !ok {
			return ".other" // positional literal
		}
		if k, ok := kv.Key.(*ast.Ident); ok && k.Name == "Selections" {
			if id, ok := kv.Value.(*ast.Ident); ok && id.Name == "nil" {
				return ".absent"
			}
			s := sfSel(kv.Value)
			parts := strings.Split(s, ".")
			if len(parts) == 2 && parts[1] == "SelectionSet" && docVars[parts[0]] {
				return ".aliasDocument"
			}
			return ".other"
		}
	}
	return ".absent"
}

func caIsCollectedFieldLit(e ast.Expr) (*ast.CompositeLit, bool) {
	cl, ok := e.(*ast.CompositeLit)
	if !ok {
		return nil, false
	}
	id, ok := cl.Type.(*ast.Ident)
	return cl, ok && id.Name == "CollectedField"
}

func extractCollectAlias(repo string) (string, error) {
	fset := token.NewFileSet()
	gdir := filepath.Join(repo, "graphql")
	pkgs, err := parser.ParseDir(fset, gdir, func(fi os.FileInfo) bool { return !strings.HasSuffix(fi.Name(), "_test.go") }, 0)
	if err != nil {
		return "", err
	}
	var files []*ast.File
	for _, p := range pkgs {
		if p.Name != "graphql" {
			continue
		}
		var names []string
		for n := range p.Files {
			names = append(names, n)
		}
		sort.Strings(names)
		for _, n := range names {
			files = append(files, p.Files[n])
		}
	}
	var collect, getOrCreate *ast.FuncDecl
	for _, f := range files {
		for _, d := range f.Decls {
			if fd, ok := d.(*ast.FuncDecl); ok && fd.Recv == nil && fd.Body != nil {
				switch fd.Name.Name {
				case "collectFields":
					collect = fd
				case "getOrCreateAndAppendField":
					getOrCreate = fd
				}
			}
		}
	}
	if collect == nil || getOrCreate == nil {
		return "", fmt.Errorf("collectFields / getOrCreateAndAppendField not found in package graphql")
	}
	// ---- (a) the *ast.Field arm
	var ts *ast.TypeSwitchStmt
	ast.Inspect(collect, func(n ast.Node) bool {
		if t, ok := n.(*ast.TypeSwitchStmt); ok && ts == nil {
			ts = t
		}
		return ts == nil
	})
	if ts == nil {
		return "", fmt.Errorf("collectFields: no type switch over the selections")
	}
	swVar := ""
	if as, ok := ts.Assign.(*ast.AssignStmt); ok && len(as.Lhs) == 1 {
		swVar = sfSel(as.Lhs[0])
	}
	if swVar == "" {
		return "", fmt.Errorf("collectFields: type switch does not bind a variable")
	}
	docVars := map[string]bool{swVar: true} // variables that denote a node of the parsed document
	var fieldArm *ast.CaseClause
	for _, c := range ts.Body.List {
		cc := c.(*ast.CaseClause)
		for _, t := range cc.List {
			if prSrc(fset, t) == "*ast.Field" {
				fieldArm = cc
			}
		}
	}
	if fieldArm == nil {
		return "", fmt.Errorf("collectFields: no `case *ast.Field:` arm")
	}
	var arm, armSrc []string
	var translate func(st ast.Stmt, conditional bool)
	translate = func(st ast.Stmt, conditional bool) {
		src := strings.Join(strings.Fields(prSrc(fset, st)), " ")
		switch s := st.(type) {
		case *ast.IfStmt:
			if u, ok := s.Cond.(*ast.UnaryExpr); ok && u.Op == token.NOT && s.Init == nil && s.Else == nil && len(s.Body.List) == 1 {
				if c, ok := u.X.(*ast.CallExpr); ok && sfSel(c.Fun) == "shouldIncludeNode" {
					if b, ok := s.Body.List[0].(*ast.BranchStmt); ok && b.Tok == token.CONTINUE && !conditional {
						arm, armSrc = append(arm, ".guardInclude"), append(armSrc, src)
						return
					}
				}
			}
			// any other `if`: its stores are conditional
			stores := false
			ast.Inspect(s, func(n ast.Node) bool {
				if as, ok := n.(*ast.AssignStmt); ok {
					for _, l := range as.Lhs {
						if strings.HasSuffix(sfSel(l), ".Selections") {
							stores = true
						}
					}
				}
				return true
			})
			if stores && s.Else == nil && s.Init == nil {
				for _, b := range s.Body.List {
					translate(b, true)
				}
				return
			}
			arm, armSrc = append(arm, fmt.Sprintf("(.other %q)", src)), append(armSrc, src)
		case *ast.AssignStmt:
			if len(s.Lhs) == 1 && len(s.Rhs) == 1 {
				if strings.HasSuffix(sfSel(s.Lhs[0]), ".Selections") && s.Tok == token.ASSIGN {
					k, from := caRhs(s.Lhs[0], s.Rhs[0])
					if k == ".appendSelf" && caSrcKind(from, docVars, nil) != ".document" {
						k = ".assign"
					}
					if k == ".assign" && caSrcKind(from, docVars, nil) == ".document" {
						k = ".aliasDocument"
					}
					arm, armSrc = append(arm, fmt.Sprintf("(.store %s %v)", k, conditional)), append(armSrc, src)
					return
				}
				if c, ok := s.Rhs[0].(*ast.CallExpr); ok && sfSel(c.Fun) == "getOrCreateAndAppendField" && s.Tok == token.DEFINE && len(c.Args) > 0 {
					if fl, ok := c.Args[len(c.Args)-1].(*ast.FuncLit); ok && len(fl.Body.List) > 0 {
						if rs, ok := fl.Body.List[len(fl.Body.List)-1].(*ast.ReturnStmt); ok && len(rs.Results) == 1 {
							if cl, ok := caIsCollectedFieldLit(rs.Results[0]); ok {
								arm = append(arm, fmt.Sprintf("(.getOrCreate %s %v)", caInit(cl, docVars), len(fl.Body.List) == 1 && !conditional))
								armSrc = append(armSrc, src)
								return
							}
						}
					}
				}
			}
			arm, armSrc = append(arm, fmt.Sprintf("(.other %q)", src)), append(armSrc, src)
		default:
			arm, armSrc = append(arm, fmt.Sprintf("(.other %q)", src)), append(armSrc, src)
		}
	}
	for _, st := range fieldArm.Body {
		translate(st, false)
	}
	// ---- (b) every literal / store of the package
	var lits, stores []string
	for _, f := range files {
		for _, d := range f.Decls {
			fd, ok := d.(*ast.FuncDecl)
			if !ok || fd.Body == nil {
				continue
			}
			fn := fd.Name.Name
			// variables of this function that denote document nodes (bound by a type switch over selections) or
			// CollectedFields built by collectFields (range variables over a collectFields(…) call)
			dv, cv := map[string]bool{}, map[string]bool{}
			ast.Inspect(fd, func(n ast.Node) bool {
				switch x := n.(type) {
				case *ast.TypeSwitchStmt:
					if as, ok := x.Assign.(*ast.AssignStmt); ok && len(as.Lhs) == 1 {
						dv[sfSel(as.Lhs[0])] = true
					}
				case *ast.RangeStmt:
					if c, ok := x.X.(*ast.CallExpr); ok && (sfSel(c.Fun) == "collectFields" || sfSel(c.Fun) == "CollectFields") && x.Value != nil {
						cv[sfSel(x.Value)] = true
					}
				}
				return true
			})
			ast.Inspect(fd, func(n ast.Node) bool {
				switch x := n.(type) {
				case *ast.CompositeLit:
					if cl, ok := caIsCollectedFieldLit(x); ok {
						lits = append(lits, fmt.Sprintf("(%q, %s)", fn, caInit(cl, dv)))
					}
				case *ast.AssignStmt:
					for i, l := range x.Lhs {
						if strings.HasSuffix(sfSel(l), ".Selections") && i < len(x.Rhs) {
							k, from := caRhs(l, x.Rhs[i])
							stores = append(stores, fmt.Sprintf("(%q, %s, %s)", fn, k, caSrcKind(from, dv, cv)))
						}
					}
				}
				return true
			})
		}
	}
	// ---- (c) getOrCreateAndAppendField: every return is &(*c)[…] of its first parameter, the only store is *c = append(*c, …)
	own := len(getOrCreate.Type.Params.List) > 0 && len(getOrCreate.Type.Params.List[0].Names) > 0
	pname := ""
	if own {
		pname = getOrCreate.Type.Params.List[0].Names[0].Name
	}
	ast.Inspect(getOrCreate, func(n ast.Node) bool {
		switch x := n.(type) {
		case *ast.ReturnStmt:
			if len(x.Results) != 1 || !strings.HasPrefix(strings.ReplaceAll(prSrc(fset, x.Results[0]), " ", ""), "&(*"+pname+")[") {
				own = false
			}
		case *ast.AssignStmt:
			if x.Tok == token.ASSIGN {
				if len(x.Lhs) != 1 || prSrc(fset, x.Lhs[0]) != "*"+pname || !strings.HasPrefix(strings.ReplaceAll(prSrc(fset, x.Rhs[0]), " ", ""), "append(*"+pname+",") {
					own = false
				}
			}
		}
		return true
	})
	var b strings.Builder
	b.WriteString("import GqlgenVerif.Model.CollectAlias\n\nnamespace GqlgenVerif.Gen.CollectAlias\nopen GqlgenVerif.CollectAlias\n\n")
	b.WriteString("/-- graphql/executable_schema.go collectFields, `case *ast.Field:`\n")
	for _, s := range armSrc {
		b.WriteString("    " + strings.ReplaceAll(s, "-/", "- /") + "\n")
	}
	b.WriteString("-/\ndef fieldArm : List ArmStmt := [" + strings.Join(arm, ", ") + "]\n\n")
	b.WriteString("/-- every `CollectedField{…}` literal of package graphql: (function, how it initialises Selections) -/\n")
	b.WriteString("def literals : List (String × SelInit) := [" + strings.Join(lits, ", ") + "]\n\n")
	b.WriteString("/-- every assignment to a `.Selections` in package graphql: (function, right-hand side, where the stored elements come from) -/\n")
	b.WriteString("def stores : List (String × SelRhs × SelSrc) := [" + strings.Join(stores, ", ") + "]\n\n")
	b.WriteString("/-- getOrCreateAndAppendField only returns `&(*c)[i]` and only stores `*c = append(*c, …)` -/\n")
	fmt.Fprintf(&b, "def getOrCreateReturnsOwn : Bool := %v\n\nend GqlgenVerif.Gen.CollectAlias\n", own)
	return b.String(), nil
}
