package main

import (
	"fmt"
	"go/ast"
	"go/parser"
	"go/token"
	"os"
	"path/filepath"
	"sort"
	"strings"
)

// SortComparators (C18): every `sort.Slice / sort.SliceStable / slices.SortFunc / slices.SortStableFunc(s, func(i, j …) bool {…})`
// in the generator packages of /repo, with the shape of its comparator. A collected slice is only as deterministic
// as the comparator that sorts it: `return s[i].K < s[i].K` compiles, passes every one-shot test and sorts nothing.
//
//	sort.Slice(populators, func(i, j int) bool { return populators[i].FuncName < populators[j].FuncName })
//
// becomes
//
//	⟨"plugin/federation/federation.go", "Federation.generateExplicitRequires", "populators", 621, false, true, true,
//	  [⟨"<", .i, .j, true, true⟩]⟩
//
// i.e. for every comparison `L op R` (== != < > <= >=) in the comparator's body: which of the two parameters L and R
// mention (`.i`, `.j`, `.both`, `.none`), whether L and R are the same expression once the parameters are erased
// (the same key of two elements), and whether op is an ordering. `SortCmp.SortSite.proper` (Model/SortCmp.lean) is
// decided on that list by `all_comparators_proper` (Props/C18Run.lean). go/extract/mapranges.go uses scProper too: a
// sort call whose comparator is not proper does not count as "sorted afterwards".
// Comparators that are not function literals (a named less function, sort.Sort on a type) are listed with
// `literal = false` and no comparisons; they are accepted (none in the generator packages today).
func init() { extractors["SortComparators"] = extractSortComparators }

type scComparison struct {
	Op          string
	Left, Right string // i | j | both | none
	SameKey     bool
	Ordered     bool
}

type scSite struct {
	File, Func, Slice string
	Line              int
	Stable, Literal   bool
	UsesI, UsesJ      bool
	Comparisons       []scComparison
}

// scSortFunLit: is call a sort with a comparator argument? returns the comparator expression and whether it is stable
func scSortFunLit(fset *token.FileSet, call *ast.CallExpr) (cmp ast.Expr, stable, ok bool) {
	fs := mrNodeStr(fset, call.Fun)
	switch fs {
	case "sort.Slice", "slices.SortFunc":
		stable = false
	case "sort.SliceStable", "slices.SortStableFunc":
		stable = true
	default:
		return nil, false, false
	}
	if len(call.Args) != 2 {
		return nil, false, false
	}
	return call.Args[1], stable, true
}

func scMentions(e ast.Expr, name string) bool {
	found := false
	ast.Inspect(e, func(n ast.Node) bool {
		if id, ok := n.(*ast.Ident); ok && id.Name == name {
			found = true
		}
		return !found
	})
	return found
}

// scErase prints e with both parameter names replaced by `_`
func scErase(fset *token.FileSet, e ast.Expr, pi, pj string) string {
	var ids []*ast.Ident
	var old []string
	ast.Inspect(e, func(n ast.Node) bool {
		if id, ok := n.(*ast.Ident); ok && (id.Name == pi || id.Name == pj) {
			ids = append(ids, id)
			old = append(old, id.Name)
			id.Name = "_"
		}
		return true
	})
	s := mrNodeStr(fset, e)
	for k, id := range ids {
		id.Name = old[k]
	}
	return s
}

func scSide(e ast.Expr, pi, pj string) string {
	a, b := scMentions(e, pi), scMentions(e, pj)
	switch {
	case a && b:
		return "both"
	case a:
		return "i"
	case b:
		return "j"
	}
	return "none"
}

// scDescribe: the comparisons of a comparator literal
func scDescribe(fset *token.FileSet, fl *ast.FuncLit) (pi, pj string, usesI, usesJ bool, cs []scComparison, err error) {
	var params []string
	for _, f := range fl.Type.Params.List {
		for _, n := range f.Names {
			params = append(params, n.Name)
		}
	}
	if len(params) != 2 {
		return "", "", false, false, nil, fmt.Errorf("comparator with %d named parameters", len(params))
	}
	pi, pj = params[0], params[1]
	usesI, usesJ = scMentions2(fl.Body, pi), scMentions2(fl.Body, pj)
	ast.Inspect(fl.Body, func(n ast.Node) bool {
		be, ok := n.(*ast.BinaryExpr)
		if !ok {
			return true
		}
		switch be.Op {
		case token.EQL, token.NEQ, token.LSS, token.GTR, token.LEQ, token.GEQ:
			cs = append(cs, scComparison{Op: be.Op.String(), Left: scSide(be.X, pi, pj), Right: scSide(be.Y, pi, pj),
				SameKey: scErase(fset, be.X, pi, pj) == scErase(fset, be.Y, pi, pj),
				Ordered: be.Op != token.EQL && be.Op != token.NEQ})
		}
		return true
	})
	return
}

func scMentions2(b *ast.BlockStmt, name string) bool {
	found := false
	ast.Inspect(b, func(n ast.Node) bool {
		if id, ok := n.(*ast.Ident); ok && id.Name == name {
			found = true
		}
		return !found
	})
	return found
}

func scCrossed(c scComparison) bool {
	return (c.Left == "i" && c.Right == "j") || (c.Left == "j" && c.Right == "i")
}

// scProperSite mirrors SortCmp.SortSite.proper (Model/SortCmp.lean); the Lean side is the one that decides, this
// copy only lets mapranges.go refuse "sorted afterwards" for a comparator that does not sort.
func scProperSite(s scSite) bool {
	if !s.Literal {
		return true
	}
	if !s.UsesI || !s.UsesJ {
		return false
	}
	anyOrd := false
	for _, c := range s.Comparisons {
		oneSided := (c.Left == "none") != (c.Right == "none")
		constant := c.Left == "none" && c.Right == "none"
		if !((scCrossed(c) && c.SameKey) || (oneSided && !c.Ordered) || constant) {
			return false
		}
		if c.Ordered && scCrossed(c) && c.SameKey {
			anyOrd = true
		}
	}
	return anyOrd
}

// scProper: used by mapranges.go on a sort call; ok=false with a reason when the comparator literal is not proper
func scProper(fset *token.FileSet, call *ast.CallExpr) (bool, string) {
	cmp, _, isSort := scSortFunLit(fset, call)
	if !isSort {
		return true, ""
	}
	fl, ok := cmp.(*ast.FuncLit)
	if !ok {
		return true, ""
	}
	s := scSite{Literal: true}
	var err error
	_, _, s.UsesI, s.UsesJ, s.Comparisons, err = scDescribe(fset, fl)
	if err != nil {
		return false, err.Error()
	}
	if !scProperSite(s) {
		return false, "its comparator does not compare a key of element i with the same key of element j: " + strings.Join(strings.Fields(mrNodeStr(fset, fl.Body)), " ")
	}
	return true, ""
}

func extractSortComparators(repo string) (string, error) {
	fset := token.NewFileSet()
	var sites []scSite
	for _, p := range mapRangePkgs {
		dir := filepath.Join(repo, p)
		ents, err := os.ReadDir(dir)
		if err != nil {
			return "", err
		}
		for _, e := range ents {
			if e.IsDir() || !strings.HasSuffix(e.Name(), ".go") || strings.HasSuffix(e.Name(), "_test.go") || e.Name() == "verif_export.go" {
				continue
			}
			f, err := parser.ParseFile(fset, filepath.Join(dir, e.Name()), nil, 0)
			if err != nil {
				return "", err
			}
			rel := filepath.Join(p, e.Name())
			for _, d := range f.Decls {
				fd, ok := d.(*ast.FuncDecl)
				if !ok || fd.Body == nil {
					continue
				}
				fnName := fd.Name.Name
				if fd.Recv != nil && len(fd.Recv.List) > 0 {
					fnName = strings.TrimPrefix(mrNodeStr(fset, fd.Recv.List[0].Type), "*") + "." + fnName
				}
				var ierr error
				ast.Inspect(fd.Body, func(n ast.Node) bool {
					call, ok := n.(*ast.CallExpr)
					if !ok {
						return true
					}
					cmp, stable, isSort := scSortFunLit(fset, call)
					if !isSort {
						return true
					}
					s := scSite{File: rel, Func: fnName, Slice: mrNodeStr(fset, call.Args[0]), Line: fset.Position(call.Pos()).Line, Stable: stable}
					if fl, ok := cmp.(*ast.FuncLit); ok {
						s.Literal = true
						_, _, s.UsesI, s.UsesJ, s.Comparisons, ierr = scDescribe(fset, fl)
					}
					sites = append(sites, s)
					return true
				})
				if ierr != nil {
					return "", fmt.Errorf("%s %s: %v", rel, fnName, ierr)
				}
			}
		}
	}
	if len(sites) == 0 {
		return "", fmt.Errorf("no sort.Slice call found: the extractor no longer sees the generator packages")
	}
	sort.Slice(sites, func(i, j int) bool {
		if sites[i].File != sites[j].File {
			return sites[i].File < sites[j].File
		}
		return sites[i].Line < sites[j].Line
	})
	var b strings.Builder
	b.WriteString("import GqlgenVerif.Model.SortCmp\n")
	b.WriteString("/-! Every sort call with a comparator in gqlgen's generator packages and the shape of that comparator (go/extract/sortcomparators.go). -/\n")
	b.WriteString("namespace GqlgenVerif.Gen.SortComparators\nopen GqlgenVerif.SortCmp\n\n")
	b.WriteString("def sites : List SortSite := [\n")
	for k, s := range sites {
		var cs []string
		for _, c := range s.Comparisons {
			cs = append(cs, fmt.Sprintf("⟨%s, .%s, .%s, %v, %v⟩", kwLeanStr(c.Op), c.Left, c.Right, c.SameKey, c.Ordered))
		}
		sep := ","
		if k == len(sites)-1 {
			sep = ""
		}
		fmt.Fprintf(&b, "  ⟨%s, %s, %s, %d, %v, %v, %v, %v,\n    [%s]⟩%s\n", kwLeanStr(s.File), kwLeanStr(s.Func), kwLeanStr(s.Slice), s.Line, s.Stable, s.Literal, s.UsesI, s.UsesJ, strings.Join(cs, ", "), sep)
	}
	b.WriteString("]\n\nend GqlgenVerif.Gen.SortComparators\n")
	return b.String(), nil
}
