package main

import (
	"fmt"
	"go/ast"
	"go/parser"
	"go/token"
	"path/filepath"
	"strings"
)

// ResolverImports: translate `(*File).Imports` of plugin/resolvergen/resolver.go - how the imports of an EXISTING
// resolver file (read back by internal/rewrite: import path + alias, alias "" when the file names none) are
// re-reserved in the import table before the resolver template is rendered again:
//
//	for _, imp := range f.imports {
//		if imp.Alias == "" {
//			_, _ = templates.CurrentImports.Reserve(imp.ImportPath)
//		} else {
//			_, _ = templates.CurrentImports.Reserve(imp.ImportPath, imp.Alias)
//		}
//	}
//	return ""
//
// becomes the alias argument of that Reserve call as a function of the alias read from the file (`none` = the
// one-argument form `Reserve(path)`, which takes the package's own name):
//
//	def reserveAlias (a : String) : Option String := if a == "" then none else some a
//
// `Props/C18.lean` (`regen_lookups_fixed_point`) proves over THIS definition that re-reserving the previous output's
// imports and rendering again hands out the aliases of the first run (idempotence of the import block). Accepted
// statement forms inside the loop: one Reserve call on `<imp>.ImportPath` with no alias or `<imp>.Alias`, possibly
// under `if <imp>.Alias ==|!= "" {…} else {…}`. Anything else is refused (the tie is reported broken).
func init() { extractors["ResolverImports"] = extractResolverImports }

type riTr struct {
	imp  string
	errs []string
}

func (t *riTr) fail(format string, a ...any) string {
	t.errs = append(t.errs, fmt.Sprintf(format, a...))
	return "none"
}

func (t *riTr) isImpField(e ast.Expr, field string) bool {
	se, ok := e.(*ast.SelectorExpr)
	if !ok || se.Sel.Name != field {
		return false
	}
	id, ok := se.X.(*ast.Ident)
	return ok && id.Name == t.imp
}

func (t *riTr) call(e ast.Expr) string {
	c, ok := e.(*ast.CallExpr)
	if !ok {
		return t.fail("not a call")
	}
	se, ok := c.Fun.(*ast.SelectorExpr)
	if !ok || se.Sel.Name != "Reserve" {
		return t.fail("call is not …Reserve(…)")
	}
	if len(c.Args) < 1 || len(c.Args) > 2 || !t.isImpField(c.Args[0], "ImportPath") {
		return t.fail("Reserve is not called on %s.ImportPath with at most one alias", t.imp)
	}
	if len(c.Args) == 1 {
		return "none"
	}
	if !t.isImpField(c.Args[1], "Alias") {
		return t.fail("alias argument of Reserve is not %s.Alias", t.imp)
	}
	return "some a"
}

func (t *riTr) block(b *ast.BlockStmt) string {
	if b == nil || len(b.List) != 1 {
		return t.fail("block does not consist of exactly one statement")
	}
	return t.stmt(b.List[0])
}

func (t *riTr) stmt(s ast.Stmt) string {
	switch x := s.(type) {
	case *ast.ExprStmt:
		return t.call(x.X)
	case *ast.AssignStmt:
		if len(x.Rhs) != 1 {
			return t.fail("assignment with several right-hand sides")
		}
		for _, l := range x.Lhs {
			if id, ok := l.(*ast.Ident); !ok || id.Name != "_" {
				return t.fail("result of Reserve is used")
			}
		}
		return t.call(x.Rhs[0])
	case *ast.IfStmt:
		if x.Init != nil {
			return t.fail("if with init statement")
		}
		be, ok := x.Cond.(*ast.BinaryExpr)
		if !ok || (be.Op != token.EQL && be.Op != token.NEQ) || !t.isImpField(be.X, "Alias") {
			return t.fail("condition is not %s.Alias ==|!= \"\"", t.imp)
		}
		if lit, ok := be.Y.(*ast.BasicLit); !ok || lit.Value != `""` {
			return t.fail("condition does not compare with the empty string")
		}
		th := t.block(x.Body)
		el := "none"
		switch e := x.Else.(type) {
		case nil:
			return t.fail("if without else (some imports would not be re-reserved)")
		case *ast.BlockStmt:
			el = t.block(e)
		case *ast.IfStmt:
			el = t.stmt(e)
		}
		op := "=="
		if be.Op == token.NEQ {
			op = "!="
		}
		return fmt.Sprintf("(if a %s \"\" then %s else %s)", op, th, el)
	}
	return t.fail("unsupported statement %T", s)
}

func extractResolverImports(repo string) (string, error) {
	fset := token.NewFileSet()
	path := filepath.Join(repo, "plugin", "resolvergen", "resolver.go")
	f, err := parser.ParseFile(fset, path, nil, 0)
	if err != nil {
		return "", err
	}
	var fd *ast.FuncDecl
	for _, d := range f.Decls {
		if x, ok := d.(*ast.FuncDecl); ok && x.Name.Name == "Imports" && x.Recv != nil && len(x.Recv.List) == 1 {
			if st, ok := x.Recv.List[0].Type.(*ast.StarExpr); ok {
				if id, ok := st.X.(*ast.Ident); ok && id.Name == "File" {
					fd = x
				}
			}
		}
	}
	if fd == nil || fd.Body == nil {
		return "", fmt.Errorf("(*File).Imports not found in %s", path)
	}
	if len(fd.Body.List) != 2 {
		return "", fmt.Errorf("(*File).Imports: expected `for … range f.imports {…}; return \"\"`, found %d statements", len(fd.Body.List))
	}
	rs, ok := fd.Body.List[0].(*ast.RangeStmt)
	if !ok {
		return "", fmt.Errorf("(*File).Imports: first statement is not a range loop")
	}
	if se, ok := rs.X.(*ast.SelectorExpr); !ok || se.Sel.Name != "imports" {
		return "", fmt.Errorf("(*File).Imports: the loop does not range over f.imports")
	}
	v, ok := rs.Value.(*ast.Ident)
	if !ok || v.Name == "_" {
		return "", fmt.Errorf("(*File).Imports: the loop has no value variable")
	}
	if ret, ok := fd.Body.List[1].(*ast.ReturnStmt); !ok || len(ret.Results) != 1 {
		return "", fmt.Errorf("(*File).Imports: second statement is not `return \"\"`")
	}
	t := &riTr{imp: v.Name}
	body := t.block(rs.Body)
	if len(t.errs) > 0 {
		return "", fmt.Errorf("(*File).Imports: %s", strings.Join(t.errs, "; "))
	}
	var b strings.Builder
	b.WriteString("/-! Regenerated from plugin/resolvergen/resolver.go `(*File).Imports` (go/extract/resolverimports.go). -/\n")
	b.WriteString("namespace GqlgenVerif.Gen.ResolverImports\n\n")
	b.WriteString("/-- the alias argument of `templates.CurrentImports.Reserve(imp.ImportPath, …)` for an import of the existing\n")
	b.WriteString("resolver file whose alias, as read back from the file, is `a` (\"\" = the file names none); `none` = `Reserve(path)` -/\n")
	fmt.Fprintf(&b, "def reserveAlias (a : String) : Option String := %s\n\n", body)
	b.WriteString("end GqlgenVerif.Gen.ResolverImports\n")
	return b.String(), nil
}
