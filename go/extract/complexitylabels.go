package main

import (
	"fmt"
	"go/ast"
	"go/parser"
	"go/token"
	"os"
	"path/filepath"
	"regexp"
	"strconv"
	"strings"
	"text/template/parse"
)

// ComplexityLabels (C14): how each template FLAVOUR spells the generated `executableSchema.Complexity` switch and the
// `ComplexityRoot` struct it reads - codegen/generated!.gotpl (single-file layout) and codegen/root_.gotpl
// (follow-schema layout) carry their own copy of both.
//
//	func (e *executableSchema) Complexity(ctx context.Context, typeName, field string, …) (int, bool) {
//	{{ if not .Config.OmitComplexity }}
//	switch typeName + "." + field {                                             <- tag
//	{{ range $object := .Objects }}{{ if not $object.IsReserved }}              <- objGuard
//	  {{ range $_, $fields := $object.UniqueFields }}{{ $len := len $fields }}
//	    {{ range $i, $field := $fields }}{{ $last := eq (add $i 1) $len }}
//	      {{ if not $field.IsReserved }}                                        <- fieldGuard
//	        {{ if eq $i 0 }}case {{ end }}"{{$object.Name}}.{{$field.Name}}"    <- label
//	        {{ if not $last }},{{ else }}:
//	          if e.complexity.{{ucFirst $object.Name}}.{{$field.GoFieldName}} == nil { break }     <- nilCheck
//	          …
//	          return e.complexity.{{ucFirst $object.Name}}.{{$field.GoFieldName}}(childComplexity…), true   <- call
//
//	type ComplexityRoot struct {
//	{{ range $object := .Objects }}{{ if not $object.IsReserved }}              <- rootObjGuard
//	  {{ ucFirst $object.Name }} struct {                                       <- rootStruct
//	  {{ range $_, $fields := $object.UniqueFields }}{{ $field := index $fields 0 }}
//	    {{ if not $field.IsReserved }}                                          <- rootFieldGuard
//	      {{ $field.GoFieldName }} {{ $field.ComplexitySignature }}             <- rootEntry
//
// The walker (complexity/complexity.go) hands `ObjectDefinition.Name` / `Field.Name` to Complexity() exactly as the
// schema spells them, so the label must be spelled from the same two names as the tag, whatever the Go identifiers
// derived from them look like. Each piece is translated into the little term language of Model/ComplexityLabel.lean
// (`NameExpr`: objName | fieldName | fieldGoName | ucFirst e | lcFirst e; `Part`: lit | sub; `Guard`: objReserved |
// fieldReserved | objAttr "Root"/"Stream" | not | and | or); Props/C14Label.lean
// proves `Faithful` for BOTH flavours over what is regenerated here.
//
// Refused (broken tie): another nesting of the ranges / guards, a template function other than ucFirst / lcFirst, an
// attribute other than Name / GoFieldName / IsReserved (guards: also $object.Root / $object.Stream), a tag that is not a `+` chain of the two parameters and
// string literals, `case` not on the first member or the body not after the last.
func init() { extractors["ComplexityLabels"] = extractComplexityLabels }

type clTr struct {
	file string
	src  string
}

func (t *clTr) errf(pos parse.Pos, format string, a ...any) error {
	line := 1 + strings.Count(t.src[:int(pos)], "\n")
	return fmt.Errorf("%s:%d: %s", t.file, line, fmt.Sprintf(format, a...))
}

func clNorm(s string) string { return strings.Join(strings.Fields(s), " ") }

// nonblank children of a list
func clKids(l *parse.ListNode) []parse.Node {
	var res []parse.Node
	if l == nil {
		return nil
	}
	for _, n := range l.Nodes {
		if tn, ok := n.(*parse.TextNode); ok && strings.TrimSpace(string(tn.Text)) == "" {
			continue
		}
		if _, ok := n.(*parse.CommentNode); ok {
			continue
		}
		res = append(res, n)
	}
	return res
}

// ---- pipelines -> NameExpr / Guard

func (t *clTr) varExpr(v *parse.VariableNode, obj, field string) (string, error) {
	if len(v.Ident) == 2 {
		switch {
		case v.Ident[0] == obj && v.Ident[1] == "Name":
			return ".objName", nil
		case field != "" && v.Ident[0] == field && v.Ident[1] == "Name":
			return ".fieldName", nil
		case field != "" && v.Ident[0] == field && v.Ident[1] == "GoFieldName":
			return ".fieldGoName", nil
		}
	}
	return "", t.errf(v.Pos, "`%s` is not one of %s.Name / %s.Name / %s.GoFieldName", v.String(), obj, field, field)
}

func (t *clTr) argExpr(n parse.Node, obj, field string) (string, error) {
	switch x := n.(type) {
	case *parse.VariableNode:
		return t.varExpr(x, obj, field)
	case *parse.PipeNode:
		return t.nameExpr(x, obj, field)
	}
	return "", t.errf(n.Position(), "cannot translate `%s` as a name", n.String())
}

var clFns = map[string]string{"ucFirst": ".ucFirst", "lcFirst": ".lcFirst"}

func (t *clTr) nameExpr(p *parse.PipeNode, obj, field string) (string, error) {
	if len(p.Decl) != 0 || len(p.Cmds) == 0 {
		return "", t.errf(p.Pos, "cannot translate `%s` as a name", p.String())
	}
	cur := ""
	for i, c := range p.Cmds {
		var e string
		var err error
		switch {
		case i == 0 && len(c.Args) == 1:
			e, err = t.argExpr(c.Args[0], obj, field)
		case i == 0 && len(c.Args) == 2:
			id, ok := c.Args[0].(*parse.IdentifierNode)
			if !ok || clFns[id.Ident] == "" {
				return "", t.errf(c.Pos, "`%s`: template function is not ucFirst / lcFirst", c.String())
			}
			e, err = t.argExpr(c.Args[1], obj, field)
			e = "(" + clFns[id.Ident] + " " + e + ")"
		case i > 0 && len(c.Args) == 1:
			id, ok := c.Args[0].(*parse.IdentifierNode)
			if !ok || clFns[id.Ident] == "" {
				return "", t.errf(c.Pos, "`| %s`: template function is not ucFirst / lcFirst", c.String())
			}
			e = "(" + clFns[id.Ident] + " " + cur + ")"
		default:
			return "", t.errf(c.Pos, "cannot translate `%s` as a name", c.String())
		}
		if err != nil {
			return "", err
		}
		cur = e
	}
	return cur, nil
}

// boolean attributes of codegen.Object a guard may read besides IsReserved (what the harness knows of its projects)
var clObjAttrs = map[string]bool{"Root": true, "Stream": true}

func (t *clTr) guardArg(n parse.Node, obj, field string) (string, error) {
	switch x := n.(type) {
	case *parse.VariableNode:
		if len(x.Ident) == 2 && x.Ident[1] == "IsReserved" {
			if x.Ident[0] == obj {
				return ".objReserved", nil
			}
			if field != "" && x.Ident[0] == field {
				return ".fieldReserved", nil
			}
		}
		// the KIND of the object: `$object.Root` (a root of the schema), `$object.Stream` (the subscription root) - a
		// guard that reads it is translated (Guard.objAttr), so that the switch it describes can be run by the model and
		// `Faithful` (stated for every valuation of these attributes) stops closing
		if len(x.Ident) == 2 && x.Ident[0] == obj && clObjAttrs[x.Ident[1]] {
			return fmt.Sprintf("(.objAttr %q)", x.Ident[1]), nil
		}
		return "", t.errf(x.Pos, "guard reads `%s`: only %s.IsReserved / %s.Root / %s.Stream / %s.IsReserved are modelled", x.String(), obj, obj, obj, field)
	case *parse.PipeNode:
		return t.guard(x, obj, field)
	}
	return "", t.errf(n.Position(), "cannot translate guard `%s`", n.String())
}

func (t *clTr) guard(p *parse.PipeNode, obj, field string) (string, error) {
	if len(p.Decl) != 0 || len(p.Cmds) != 1 {
		return "", t.errf(p.Pos, "cannot translate guard `%s`", p.String())
	}
	a := p.Cmds[0].Args
	if len(a) == 1 {
		return t.guardArg(a[0], obj, field)
	}
	id, ok := a[0].(*parse.IdentifierNode)
	if !ok {
		return "", t.errf(p.Pos, "cannot translate guard `%s`", p.String())
	}
	var xs []string
	for _, n := range a[1:] {
		g, err := t.guardArg(n, obj, field)
		if err != nil {
			return "", err
		}
		xs = append(xs, g)
	}
	switch {
	case id.Ident == "not" && len(xs) == 1:
		return "(.not " + xs[0] + ")", nil
	case (id.Ident == "and" || id.Ident == "or") && len(xs) >= 2:
		cur := xs[len(xs)-1]
		for i := len(xs) - 2; i >= 0; i-- {
			cur = "(." + id.Ident + " " + xs[i] + " " + cur + ")"
		}
		return cur, nil
	}
	return "", t.errf(p.Pos, "cannot translate guard `%s`", p.String())
}

// ---- streams: text with placeholders for actions (\x00<idx>\x00) and nested control nodes (\x01)

type clStream struct {
	text string
	acts []*parse.ActionNode
}

func (t *clTr) stream(nodes []parse.Node) (*clStream, error) {
	s := &clStream{}
	var b strings.Builder
	for _, n := range nodes {
		switch x := n.(type) {
		case *parse.TextNode:
			b.Write(x.Text)
		case *parse.ActionNode:
			fmt.Fprintf(&b, "\x00%d\x00", len(s.acts))
			s.acts = append(s.acts, x)
		case *parse.IfNode, *parse.RangeNode, *parse.WithNode:
			b.WriteString("\x01")
		case *parse.CommentNode:
		default:
			return nil, t.errf(n.Position(), "unexpected template node `%s`", n.String())
		}
	}
	s.text = b.String()
	return s, nil
}

var clPh = regexp.MustCompile("\x00(\\d+)\x00")

// parts: a piece of stream text -> `[.lit "…", .sub e, …]`
func (t *clTr) parts(s *clStream, piece, obj, field string) (string, error) {
	var ps []string
	rest := piece
	for rest != "" {
		loc := clPh.FindStringSubmatchIndex(rest)
		if loc == nil {
			ps = append(ps, ".lit "+strconv.Quote(rest))
			break
		}
		if loc[0] > 0 {
			ps = append(ps, ".lit "+strconv.Quote(rest[:loc[0]]))
		}
		i, _ := strconv.Atoi(rest[loc[2]:loc[3]])
		e, err := t.nameExpr(s.acts[i].Pipe, obj, field)
		if err != nil {
			return "", err
		}
		ps = append(ps, ".sub "+e)
		rest = rest[loc[1]:]
	}
	for _, p := range ps {
		if strings.ContainsAny(p, "\x00\x01\\") {
			return "", fmt.Errorf("%s: cannot translate `%q`", t.file, piece)
		}
	}
	return "[" + strings.Join(ps, ", ") + "]", nil
}

// path: `A.B` (two dot-separated segments of text and actions) -> `([…], […])`
func (t *clTr) path(s *clStream, p, obj, field string) (string, error) {
	segs := strings.Split(p, ".")
	if len(segs) != 2 {
		return "", fmt.Errorf("%s: `e.complexity.%q` is not <struct>.<entry>", t.file, p)
	}
	a, err := t.parts(s, segs[0], obj, field)
	if err != nil {
		return "", err
	}
	b, err := t.parts(s, segs[1], obj, field)
	if err != nil {
		return "", err
	}
	return "(" + a + ", " + b + ")", nil
}

// ---- the shape of the two blocks

type clRange struct {
	vars []string
	expr string
	node *parse.RangeNode
}

func (t *clTr) asRange(n parse.Node, nvars int, expr string) (*parse.RangeNode, []string, error) {
	r, ok := n.(*parse.RangeNode)
	if !ok {
		return nil, nil, t.errf(n.Position(), "expected `range … := %s`, found `%s`", expr, clNorm(n.String())[:min(60, len(clNorm(n.String())))])
	}
	if r.ElseList != nil || len(r.Pipe.Decl) != nvars || len(r.Pipe.Cmds) != 1 || clNorm(r.Pipe.Cmds[0].String()) != expr {
		return nil, nil, t.errf(r.Pos, "expected `range` of %d variable(s) over `%s`, found `range %s`", nvars, expr, clNorm(r.Pipe.String()))
	}
	var vs []string
	for _, d := range r.Pipe.Decl {
		vs = append(vs, d.Ident[0])
	}
	return r, vs, nil
}

func (t *clTr) asGuard(n parse.Node, what string) (*parse.IfNode, error) {
	i, ok := n.(*parse.IfNode)
	if !ok || i.ElseList != nil {
		return nil, t.errf(n.Position(), "expected the %s `if` (without else)", what)
	}
	return i, nil
}

func (t *clTr) asDecl(n parse.Node, v, expr string) error {
	a, ok := n.(*parse.ActionNode)
	if !ok || len(a.Pipe.Decl) != 1 || a.Pipe.Decl[0].Ident[0] != v || len(a.Pipe.Cmds) != 1 || clNorm(a.Pipe.Cmds[0].String()) != expr {
		return t.errf(n.Position(), "expected `{{ %s := %s }}`, found `%s`", v, expr, clNorm(n.String()))
	}
	return nil
}

var clSig = regexp.MustCompile(`func \(e \*executableSchema\) Complexity\(ctx context\.Context, (\w+), (\w+) string, childComplexity int,`)
var clSwitch = regexp.MustCompile(`(?s)^\s*switch\s+(.+?)\s*\{\s*$`)
var clBody = regexp.MustCompile("(?s)^:\\s*if e\\.complexity\\.([^\\s=(]+) == nil \\{\\s*break\\s*\\}\\s*\x01\\s*return e\\.complexity\\.([^\\s=(]+)\\(childComplexity\x01\\), true\\s*$")

func (t *clTr) tag(expr, pType, pField string) (string, error) {
	e, err := parser.ParseExpr(expr)
	if err != nil {
		return "", fmt.Errorf("%s: switch tag `%s`: %v", t.file, expr, err)
	}
	var ps []string
	var walk func(e ast.Expr) error
	walk = func(e ast.Expr) error {
		switch x := e.(type) {
		case *ast.BinaryExpr:
			if x.Op != token.ADD {
				break
			}
			if err := walk(x.X); err != nil {
				return err
			}
			return walk(x.Y)
		case *ast.ParenExpr:
			return walk(x.X)
		case *ast.Ident:
			switch x.Name {
			case pType:
				ps = append(ps, ".typeName")
				return nil
			case pField:
				ps = append(ps, ".field")
				return nil
			}
		case *ast.BasicLit:
			if x.Kind == token.STRING {
				s, err := strconv.Unquote(x.Value)
				if err == nil {
					ps = append(ps, ".lit "+strconv.Quote(s))
					return nil
				}
			}
		}
		return fmt.Errorf("%s: switch tag `%s` is not a `+` chain of the parameters %s, %s and string literals", t.file, expr, pType, pField)
	}
	if err := walk(e); err != nil {
		return "", err
	}
	return "[" + strings.Join(ps, ", ") + "]", nil
}

func (t *clTr) flavour(name string, tree *parse.Tree) (string, error) {
	var blocks []*parse.IfNode
	var before = map[*parse.IfNode]string{}
	var visit func(l *parse.ListNode)
	visit = func(l *parse.ListNode) {
		if l == nil {
			return
		}
		prev := ""
		for _, n := range l.Nodes {
			switch x := n.(type) {
			case *parse.TextNode:
				prev = string(x.Text)
			case *parse.IfNode:
				if clNorm(x.Pipe.String()) == "not .Config.OmitComplexity" {
					blocks = append(blocks, x)
					before[x] = prev
				} else {
					visit(x.List)
					visit(x.ElseList)
				}
			case *parse.RangeNode:
				visit(x.List)
				visit(x.ElseList)
			case *parse.WithNode:
				visit(x.List)
				visit(x.ElseList)
			}
		}
	}
	visit(tree.Root)
	var sw, st *parse.IfNode
	for _, b := range blocks {
		k := clKids(b.List)
		first := ""
		if len(k) > 0 {
			if tn, ok := k[0].(*parse.TextNode); ok {
				first = string(tn.Text)
			}
		}
		switch {
		case strings.Contains(first, "switch ") && sw == nil:
			sw = b
		case strings.HasSuffix(strings.TrimSpace(before[b]), "type ComplexityRoot struct {") && st == nil:
			st = b
		default:
			return "", t.errf(b.Pos, "an `if not .Config.OmitComplexity` block that is neither the ComplexityRoot struct nor the Complexity switch")
		}
	}
	if sw == nil || st == nil || sw.ElseList != nil || st.ElseList != nil {
		return "", fmt.Errorf("%s: the `if not .Config.OmitComplexity` blocks of ComplexityRoot and of the Complexity switch were not both found", t.file)
	}

	// ================= the switch
	m := clSig.FindStringSubmatch(before[sw])
	if m == nil {
		return "", t.errf(sw.Pos, "the switch is not preceded by `func (e *executableSchema) Complexity(ctx context.Context, <typeName>, <field> string, childComplexity int, …`")
	}
	k := clKids(sw.List)
	if len(k) != 3 {
		return "", t.errf(sw.Pos, "the switch block is not `switch <tag> {` + one range over .Objects + `}`")
	}
	tn, ok1 := k[0].(*parse.TextNode)
	tl, ok2 := k[2].(*parse.TextNode)
	if !ok1 || !ok2 || strings.TrimSpace(string(tl.Text)) != "}" {
		return "", t.errf(sw.Pos, "the switch block is not `switch <tag> {` + one range over .Objects + `}`")
	}
	tm := clSwitch.FindStringSubmatch(string(tn.Text))
	if tm == nil {
		return "", t.errf(tn.Pos, "no `switch <tag> {`")
	}
	tag, err := t.tag(tm[1], m[1], m[2])
	if err != nil {
		return "", err
	}
	rObj, vs, err := t.asRange(k[1], 1, ".Objects")
	if err != nil {
		return "", err
	}
	obj := vs[0]
	k = clKids(rObj.List)
	if len(k) != 1 {
		return "", t.errf(rObj.Pos, "the range over .Objects does not hold exactly one guarded block")
	}
	gObj, err := t.asGuard(k[0], "object guard")
	if err != nil {
		return "", err
	}
	objGuard, err := t.guard(gObj.Pipe, obj, "")
	if err != nil {
		return "", err
	}
	k = clKids(gObj.List)
	if len(k) != 1 {
		return "", t.errf(gObj.Pos, "the object guard does not hold exactly one range over %s.UniqueFields", obj)
	}
	rGrp, vs, err := t.asRange(k[0], 2, obj+".UniqueFields")
	if err != nil {
		return "", err
	}
	fields := vs[1]
	k = clKids(rGrp.List)
	if len(k) != 2 {
		return "", t.errf(rGrp.Pos, "a group is not `$len := len %s` + one range over %s", fields, fields)
	}
	if err := t.asDecl(k[0], "$len", "len "+fields); err != nil {
		return "", err
	}
	rFld, vs, err := t.asRange(k[1], 2, fields)
	if err != nil {
		return "", err
	}
	idx, field := vs[0], vs[1]
	k = clKids(rFld.List)
	if len(k) != 2 {
		return "", t.errf(rFld.Pos, "a member is not `$last := …` + one guarded block")
	}
	if err := t.asDecl(k[0], "$last", "eq (add "+idx+" 1) $len"); err != nil {
		return "", err
	}
	gFld, err := t.asGuard(k[1], "field guard")
	if err != nil {
		return "", err
	}
	fieldGuard, err := t.guard(gFld.Pipe, obj, field)
	if err != nil {
		return "", err
	}
	k = clKids(gFld.List)
	// `{{ if eq $i 0 }}case {{ end }}` <label> `{{ if not $last }},{{ else }}:` <body> `{{ end }}`
	if len(k) < 3 {
		return "", t.errf(gFld.Pos, "a member is not `case` (first) + label + `,` / `:` body (last)")
	}
	cs, ok := k[0].(*parse.IfNode)
	if !ok || cs.ElseList != nil || clNorm(cs.Pipe.String()) != "eq "+idx+" 0" || clNorm(cs.List.String()) != "case" {
		return "", t.errf(k[0].Position(), "`case` is not emitted exactly before the first member of a group")
	}
	ls, ok := k[len(k)-1].(*parse.IfNode)
	if !ok || ls.ElseList == nil || clNorm(ls.Pipe.String()) != "not $last" || clNorm(ls.List.String()) != "," {
		return "", t.errf(k[len(k)-1].Position(), "the members of a group are not joined by `,` with the body after the last one")
	}
	lab, err := t.stream(k[1 : len(k)-1])
	if err != nil {
		return "", err
	}
	lt := strings.TrimSpace(lab.text)
	if len(lt) < 2 || lt[0] != '"' || lt[len(lt)-1] != '"' || strings.ContainsAny(lt[1:len(lt)-1], "\"\\\x01\n") {
		return "", t.errf(k[1].Position(), "the case label is not one interpreted string literal")
	}
	label, err := t.parts(lab, lt[1:len(lt)-1], obj, field)
	if err != nil {
		return "", err
	}
	body, err := t.stream(ls.ElseList.Nodes)
	if err != nil {
		return "", err
	}
	bm := clBody.FindStringSubmatch(body.text)
	if bm == nil {
		return "", t.errf(ls.Pos, "the body of a clause is not `if e.complexity.<S>.<E> == nil { break }` [args] `return e.complexity.<S>.<E>(childComplexity[, args]), true`")
	}
	nilCheck, err := t.path(body, bm[1], obj, field)
	if err != nil {
		return "", err
	}
	call, err := t.path(body, bm[2], obj, field)
	if err != nil {
		return "", err
	}

	// ================= ComplexityRoot
	k = clKids(st.List)
	if len(k) != 1 {
		return "", t.errf(st.Pos, "ComplexityRoot is not one range over .Objects")
	}
	rObj2, vs, err := t.asRange(k[0], 1, ".Objects")
	if err != nil {
		return "", err
	}
	obj2 := vs[0]
	k = clKids(rObj2.List)
	if len(k) != 1 {
		return "", t.errf(rObj2.Pos, "ComplexityRoot: the range over .Objects does not hold exactly one guarded block")
	}
	gObj2, err := t.asGuard(k[0], "object guard of ComplexityRoot")
	if err != nil {
		return "", err
	}
	rootObjGuard, err := t.guard(gObj2.Pipe, obj2, "")
	if err != nil {
		return "", err
	}
	k = clKids(gObj2.List)
	// <struct name> ` struct {` range `}`
	if len(k) < 3 {
		return "", t.errf(gObj2.Pos, "ComplexityRoot: a member is not `<Name> struct {` + one range over the groups + `}`")
	}
	head, err := t.stream(k[:len(k)-2])
	if err != nil {
		return "", err
	}
	ht := strings.TrimSpace(head.text)
	if tl, ok := k[len(k)-1].(*parse.TextNode); !ok || strings.TrimSpace(string(tl.Text)) != "}" || !strings.HasSuffix(ht, " struct {") {
		return "", t.errf(gObj2.Pos, "ComplexityRoot: a member is not `<Name> struct {` + one range over the groups + `}`")
	}
	rootStruct, err := t.parts(head, strings.TrimSpace(strings.TrimSuffix(ht, " struct {")), obj2, "")
	if err != nil {
		return "", err
	}
	rGrp2, vs, err := t.asRange(k[len(k)-2], 2, obj2+".UniqueFields")
	if err != nil {
		return "", err
	}
	fields2 := vs[1]
	k = clKids(rGrp2.List)
	if len(k) != 2 {
		return "", t.errf(rGrp2.Pos, "ComplexityRoot: a group is not `$field := index %s 0` + one guarded entry", fields2)
	}
	da, ok := k[0].(*parse.ActionNode)
	if !ok || len(da.Pipe.Decl) != 1 || len(da.Pipe.Cmds) != 1 || clNorm(da.Pipe.Cmds[0].String()) != "index "+fields2+" 0" {
		return "", t.errf(k[0].Position(), "ComplexityRoot: the entry of a group is not declared from its FIRST member (`index %s 0`)", fields2)
	}
	field2 := da.Pipe.Decl[0].Ident[0]
	gFld2, err := t.asGuard(k[1], "field guard of ComplexityRoot")
	if err != nil {
		return "", err
	}
	rootFieldGuard, err := t.guard(gFld2.Pipe, obj2, field2)
	if err != nil {
		return "", err
	}
	ent, err := t.stream(gFld2.List.Nodes)
	if err != nil {
		return "", err
	}
	et := strings.TrimSpace(ent.text)
	if len(ent.acts) < 2 || clNorm(ent.acts[len(ent.acts)-1].Pipe.String()) != field2+".ComplexitySignature" {
		return "", t.errf(gFld2.Pos, "ComplexityRoot: an entry is not `<Name> {{ %s.ComplexitySignature }}`", field2)
	}
	sigPh := fmt.Sprintf(" \x00%d\x00", len(ent.acts)-1)
	if !strings.HasSuffix(et, sigPh) {
		return "", t.errf(gFld2.Pos, "ComplexityRoot: an entry is not `<Name> {{ %s.ComplexitySignature }}`", field2)
	}
	rootEntry, err := t.parts(ent, strings.TrimSpace(strings.TrimSuffix(et, sigPh)), obj2, field2)
	if err != nil {
		return "", err
	}

	var b strings.Builder
	fmt.Fprintf(&b, "/-- `%s`: the Complexity switch and ComplexityRoot, as spelled there -/\ndef %s : Flavour :=\n", t.file, name)
	fmt.Fprintf(&b, "  { tag := %s\n    label := %s\n    objGuard := %s\n    fieldGuard := %s\n    nilCheck := %s\n    call := %s\n", tag, label, objGuard, fieldGuard, nilCheck, call)
	fmt.Fprintf(&b, "    rootObjGuard := %s\n    rootFieldGuard := %s\n    rootStruct := %s\n    rootEntry := %s }\n\n", rootObjGuard, rootFieldGuard, rootStruct, rootEntry)
	return b.String(), nil
}

// ---- the other side of the lookup: which names complexity/complexity.go hands to ExecutableSchema.Complexity
//
//	selectionSetComplexity:   cw.fieldComplexity(ctx, s.ObjectDefinition.Name, s.Name, …)            -> objectArgs
//	                          cw.interfaceFieldComplexity(ctx, s.ObjectDefinition, s.Name, …)       -> interfaceArgs
//	interfaceFieldComplexity: for _, t := range <implementors> { cw.fieldComplexity(ctx, t.Name, field, …) }  -> implementorArgs
//	fieldComplexity:          cw.es.Complexity(ctx, object, field, …)                               -> complexityArgs
//
// Each argument is rendered as `.param i` (the i-th parameter of the enclosing function, handed on untouched) or
// `.expr "<Go source>"`; every call of that name inside the function must pass the same two.
func clWalker(repo string) (string, error) {
	fn := filepath.Join(repo, "complexity", "complexity.go")
	fset := token.NewFileSet()
	f, err := parser.ParseFile(fset, fn, nil, 0)
	if err != nil {
		return "", err
	}
	src, err := os.ReadFile(fn)
	if err != nil {
		return "", err
	}
	text := func(e ast.Expr) string { return string(src[fset.Position(e.Pos()).Offset:fset.Position(e.End()).Offset]) }
	funcs := map[string]*ast.FuncDecl{}
	for _, d := range f.Decls {
		if fd, ok := d.(*ast.FuncDecl); ok && fd.Recv != nil {
			funcs[fd.Name.Name] = fd
		}
	}
	// args 1 and 2 of every call `<…>.callee(…)` inside function `in`
	pair := func(in, callee string) (string, error) {
		fd := funcs[in]
		if fd == nil {
			return "", fmt.Errorf("complexity/complexity.go: no method %s", in)
		}
		var params []string
		for _, p := range fd.Type.Params.List {
			for _, n := range p.Names {
				params = append(params, n.Name)
			}
		}
		arg := func(e ast.Expr) string {
			if id, ok := e.(*ast.Ident); ok {
				for i, p := range params {
					if p == id.Name {
						return fmt.Sprintf(".param %d", i)
					}
				}
			}
			return ".expr " + strconv.Quote(clNorm(text(e)))
		}
		found := ""
		var ferr error
		ast.Inspect(fd.Body, func(n ast.Node) bool {
			c, ok := n.(*ast.CallExpr)
			if !ok {
				return true
			}
			sel, ok := c.Fun.(*ast.SelectorExpr)
			if !ok || sel.Sel.Name != callee {
				return true
			}
			if len(c.Args) < 3 {
				ferr = fmt.Errorf("complexity/complexity.go: %s calls %s with %d arguments", in, callee, len(c.Args))
				return false
			}
			p := "(" + arg(c.Args[1]) + ", " + arg(c.Args[2]) + ")"
			if found != "" && found != p {
				ferr = fmt.Errorf("complexity/complexity.go: %s calls %s with different names: %s / %s", in, callee, found, p)
			}
			found = p
			return true
		})
		if ferr != nil {
			return "", ferr
		}
		if found == "" {
			return "", fmt.Errorf("complexity/complexity.go: %s does not call %s any more", in, callee)
		}
		return found, nil
	}
	var b strings.Builder
	b.WriteString("/-- `complexity/complexity.go`: the names handed down to `ExecutableSchema.Complexity` -/\ndef walker : WalkerLookup :=\n")
	for i, x := range [][3]string{{"objectArgs", "selectionSetComplexity", "fieldComplexity"}, {"interfaceArgs", "selectionSetComplexity", "interfaceFieldComplexity"},
		{"implementorArgs", "interfaceFieldComplexity", "fieldComplexity"}, {"complexityArgs", "fieldComplexity", "Complexity"}} {
		p, err := pair(x[1], x[2])
		if err != nil {
			return "", err
		}
		fmt.Fprintf(&b, "  %s %s := %s\n", map[bool]string{true: "{", false: " "}[i == 0], x[0], p)
	}
	b.WriteString("  }\n\n")
	return b.String(), nil
}

func extractComplexityLabels(repo string) (string, error) {
	var b strings.Builder
	b.WriteString("import GqlgenVerif.Model.ComplexityLabel\nnamespace GqlgenVerif.Gen.ComplexityLabels\nopen GqlgenVerif.ComplexityLabel\n\n")
	w, err := clWalker(repo)
	if err != nil {
		return "", err
	}
	b.WriteString(w)
	for _, fl := range [][2]string{{"single", "generated!.gotpl"}, {"follow", "root_.gotpl"}} {
		fn := filepath.Join(repo, "codegen", fl[1])
		src, err := os.ReadFile(fn)
		if err != nil {
			return "", err
		}
		tr := parse.New(fl[1])
		tr.Mode = parse.SkipFuncCheck
		trees := map[string]*parse.Tree{}
		if _, err := tr.Parse(string(src), "", "", trees); err != nil {
			return "", fmt.Errorf("%s: %v", fl[1], err)
		}
		tree := trees[fl[1]]
		if tree == nil {
			return "", fmt.Errorf("%s: no template tree", fl[1])
		}
		t := &clTr{file: "codegen/" + fl[1], src: string(src)}
		out, err := t.flavour(fl[0], tree)
		if err != nil {
			return "", err
		}
		b.WriteString(out)
	}
	b.WriteString("end GqlgenVerif.Gen.ComplexityLabels\n")
	return b.String(), nil
}
