package main

import (
	"fmt"
	"os"
	"path/filepath"
	"regexp"
	"sort"
	"strings"
	"text/template/parse"
)

// FuncSyntaxArms (C17): the two FLAVOURS of every executor template.
//
// Every place where codegen/*.gotpl declares or calls a generated helper exists twice,
//
//	{{ if $useFunctionSyntaxForExecutionContext -}}
//	    return {{ $field.TypeReference.MarshalFunc }}(ctx, ec, field.Selections, res)      <- function flavour
//	{{- else -}}
//	    return ec.{{ $field.TypeReference.MarshalFunc }}(ctx, field.Selections, res)       <- method flavour
//	{{- end }}
//
// and the generated package only compiles when, under `use_function_syntax_for_execution_context: true`, EVERY
// declaration is a free function taking `ec *executionContext` second and EVERY call passes `ec` second instead of
// going through the receiver. The templates are parsed with text/template/parse; for each such `if` both arms are
// lexed (whitespace dropped, a template action is one token) and the METHOD arm is parsed into segments:
//
//	text t | decl name p0   `func (ec *executionContext) NAME(P0`      | call name a0  `ec.NAME(A0`  | ref name `ec.NAME`
//
// Output: the token table, the raw token lists of both arms, the segments, and whether the site lies in a function
// whose `ec` is a VALUE (`ec := executionContext{…}` in Exec / Complexity: the function flavour passes `&ec`).
// Model/Flavour.lean translates the segments into the function flavour; Props/C17.lean proves that the translation
// IS the function arm of the template, for every pair of the table.
//
// Fails when an `if $useFunctionSyntaxForExecutionContext` has no else arm, or a condition mentions the variable in
// another shape.
func init() { extractors["FuncSyntaxArms"] = extractFuncSyntaxArms }

const fsVar = "$useFunctionSyntaxForExecutionContext"

// a top-level Go function of a template (generated!.gotpl indents them by one tab)
var fsTopFunc = regexp.MustCompile(`(?m)^\t?func [(A-Za-z_{]`)

func fsWalk(n parse.Node, f func(parse.Node)) {
	if n == nil {
		return
	}
	f(n)
	switch x := n.(type) {
	case *parse.ListNode:
		if x == nil {
			return
		}
		for _, c := range x.Nodes {
			fsWalk(c, f)
		}
	case *parse.IfNode:
		fsWalk(x.List, f)
		if x.ElseList != nil {
			fsWalk(x.ElseList, f)
		}
	case *parse.RangeNode:
		fsWalk(x.List, f)
		if x.ElseList != nil {
			fsWalk(x.ElseList, f)
		}
	case *parse.WithNode:
		fsWalk(x.List, f)
		if x.ElseList != nil {
			fsWalk(x.ElseList, f)
		}
	}
}

func fsIdentByte(c byte) bool {
	return c == '_' || c >= '0' && c <= '9' || c >= 'a' && c <= 'z' || c >= 'A' && c <= 'Z'
}

// fsLex: identifiers, template actions `{{…}}`, string literals and single punctuation characters; whitespace dropped.
func fsLex(s string) ([]string, error) {
	var out []string
	for i := 0; i < len(s); {
		c := s[i]
		switch {
		case c == ' ' || c == '\t' || c == '\n' || c == '\r':
			i++
		case strings.HasPrefix(s[i:], "{{"):
			j := strings.Index(s[i:], "}}")
			if j < 0 {
				return nil, fmt.Errorf("unterminated action in %q", s)
			}
			out = append(out, s[i:i+j+2])
			i += j + 2
		case c == '"':
			j := i + 1
			for j < len(s) && s[j] != '"' {
				if s[j] == '\\' {
					j++
				}
				j++
			}
			if j >= len(s) {
				return nil, fmt.Errorf("unterminated string in %q", s)
			}
			out = append(out, s[i:j+1])
			i = j + 1
		case fsIdentByte(c):
			j := i
			for j < len(s) && fsIdentByte(s[j]) {
				j++
			}
			out = append(out, s[i:j])
			i = j
		default:
			out = append(out, s[i:i+1])
			i++
		}
	}
	return out, nil
}

type fsSeg struct {
	kind      int // 0 text, 1 decl, 2 call, 3 ref
	text      string
	name, arg []string
}

func fsNameTok(t string) bool {
	return strings.HasPrefix(t, "{{") && !strings.HasPrefix(t, "{{if") && !strings.HasPrefix(t, "{{else") && !strings.HasPrefix(t, "{{end") || fsIdentByte(t[0])
}

func fsExported(t string) bool { return t[0] >= 'A' && t[0] <= 'Z' }

// firstArg: tokens from i up to (not including) the first `,` or `)` at depth 0.
func fsFirstArg(t []string, i int) (arg []string, next int) {
	depth := 0
	for j := i; j < len(t); j++ {
		switch t[j] {
		case "(", "[", "{":
			depth++
		case ")", "]", "}":
			if depth == 0 {
				return t[i:j], j
			}
			depth--
		case ",":
			if depth == 0 {
				return t[i:j], j
			}
		}
	}
	return t[i:], len(t)
}

func fsSegments(t []string) ([]fsSeg, error) {
	var segs []fsSeg
	recv := []string{"func", "(", "ec", "*", "executionContext", ")"}
	for i := 0; i < len(t); {
		if i+len(recv) <= len(t) && strings.Join(t[i:i+len(recv)], " ") == strings.Join(recv, " ") {
			j := i + len(recv)
			k := j
			for k < len(t) && fsNameTok(t[k]) {
				k++
			}
			if k == j || k >= len(t) || t[k] != "(" {
				return nil, fmt.Errorf("method declaration without a name / parameter list: %v", t[i:min(len(t), i+12)])
			}
			arg, next := fsFirstArg(t, k+1)
			segs = append(segs, fsSeg{kind: 1, name: t[j:k], arg: arg})
			i = next
			continue
		}
		// `ec.Variables`, `ec.Error(…)`: exported members come from the embedded runtime context and exist in both
		// flavours; generated helpers are unexported (`_T`, `marshal…`, `field_…`) or named by a template action
		if t[i] == "ec" && i+2 < len(t) && t[i+1] == "." && (i == 0 || t[i-1] != ".") && !fsExported(t[i+2]) {
			j := i + 2
			k := j
			for k < len(t) && fsNameTok(t[k]) {
				k++
			}
			if k == j {
				return nil, fmt.Errorf("`ec.` without a member name: %v", t[i:min(len(t), i+8)])
			}
			if k < len(t) && t[k] == "(" {
				arg, next := fsFirstArg(t, k+1)
				segs = append(segs, fsSeg{kind: 2, name: t[j:k], arg: arg})
				i = next
			} else {
				segs = append(segs, fsSeg{kind: 3, name: t[j:k]})
				i = k
			}
			continue
		}
		segs = append(segs, fsSeg{kind: 0, text: t[i]})
		i++
	}
	return segs, nil
}

func extractFuncSyntaxArms(repo string) (string, error) {
	files, err := filepath.Glob(filepath.Join(repo, "codegen", "*.gotpl"))
	if err != nil || len(files) == 0 {
		return "", fmt.Errorf("no templates under codegen/: %v", err)
	}
	sort.Strings(files)
	intern := map[string]int{}
	var table []string
	id := func(s string) int {
		if v, ok := intern[s]; ok {
			return v
		}
		intern[s] = len(table)
		table = append(table, s)
		return len(table) - 1
	}
	// fixed ids used by the model
	for _, s := range []string{"func", "(", ")", "ec", "*", "executionContext", ".", ",", "&"} {
		id(s)
	}
	ids := func(ts []string) string {
		var xs []string
		for _, t := range ts {
			xs = append(xs, fmt.Sprint(id(t)))
		}
		return "[" + strings.Join(xs, ", ") + "]"
	}
	type pair struct {
		file           string
		line           int
		value          bool
		segs           []fsSeg
		meth, fn       []string
		methTxt, fnTxt string
	}
	var pairs []pair
	for _, fn := range files {
		b, err := os.ReadFile(fn)
		if err != nil {
			return "", err
		}
		src := string(b)
		base := filepath.Base(fn)
		tr := parse.New(base)
		tr.Mode = parse.SkipFuncCheck
		trees := map[string]*parse.Tree{}
		if _, err := tr.Parse(src, "", "", trees); err != nil {
			return "", fmt.Errorf("%s: %v", base, err)
		}
		names := make([]string, 0, len(trees))
		for n := range trees {
			names = append(names, n)
		}
		sort.Strings(names)
		var ferr error
		var found []pair
		for _, n := range names {
			fsWalk(trees[n].Root, func(nd parse.Node) {
				var pipe *parse.PipeNode
				var list, elseList *parse.ListNode
				var pos parse.Pos
				switch x := nd.(type) {
				case *parse.IfNode:
					pipe, list, elseList, pos = x.Pipe, x.List, x.ElseList, x.Pos
				case *parse.WithNode:
					pipe, pos = x.Pipe, x.Pos
				default:
					return
				}
				cond := pipe.String()
				if !strings.Contains(cond, "seFunctionSyntaxForExecutionContext") {
					return
				}
				line := 1 + strings.Count(src[:int(pos)], "\n")
				if list == nil || cond != fsVar {
					ferr = fmt.Errorf("%s:%d: condition `%s` is not the plain `if %s`", base, line, cond, fsVar)
					return
				}
				if elseList == nil {
					ferr = fmt.Errorf("%s:%d: `if %s` without an else arm: one flavour gets no code here", base, line, fsVar)
					return
				}
				fnTxt := strings.Join(strings.Fields(list.String()), " ")
				methTxt := strings.Join(strings.Fields(elseList.String()), " ")
				ft, err1 := fsLex(fnTxt)
				mt, err2 := fsLex(methTxt)
				if err1 != nil || err2 != nil {
					ferr = fmt.Errorf("%s:%d: %v %v", base, line, err1, err2)
					return
				}
				segs, err := fsSegments(mt)
				if err != nil {
					ferr = fmt.Errorf("%s:%d: %v", base, line, err)
					return
				}
				// is `ec` a value in the enclosing Go function?  (`ec := executionContext{` since the last top-level `func`)
				head := src[:int(pos)]
				value := false
				if locs := fsTopFunc.FindAllStringIndex(head, -1); len(locs) > 0 {
					value = strings.Contains(head[locs[len(locs)-1][0]:], "ec := executionContext{")
				}
				found = append(found, pair{base, line, value, segs, mt, ft, methTxt, fnTxt})
			})
		}
		if ferr != nil {
			return "", ferr
		}
		sort.Slice(found, func(i, j int) bool { return found[i].line < found[j].line })
		pairs = append(pairs, found...)
	}
	if len(pairs) < 20 {
		return "", fmt.Errorf("only %d `if %s` pairs found in codegen/*.gotpl", len(pairs), fsVar)
	}
	var b strings.Builder
	b.WriteString("/-! The two flavours (function syntax / method syntax) of every `if $useFunctionSyntaxForExecutionContext` in\n")
	b.WriteString("codegen/*.gotpl: raw tokens of both arms and the method arm parsed into declaration / call / reference sites. -/\n")
	b.WriteString("namespace GqlgenVerif.Gen.FuncSyntaxArms\n\n")
	b.WriteString("/-- one `if … else … end`: (file, line, `ec` is a value in the enclosing function, segments of the METHOD arm as\n")
	b.WriteString("(kind, name, first argument) with kind 0 = text (name = [token]), 1 = method declaration, 2 = call through the\n")
	b.WriteString("receiver, 3 = reference through the receiver; raw tokens of the method arm; raw tokens of the function arm) -/\n")
	b.WriteString("abbrev Pair := String × Nat × Bool × List (Nat × List Nat × List Nat) × List Nat × List Nat\n\n")
	var body strings.Builder
	body.WriteString("def pairs : List Pair := [\n")
	for i, p := range pairs {
		var ss []string
		for _, s := range p.segs {
			if s.kind == 0 {
				ss = append(ss, fmt.Sprintf("(0, [%d], [])", id(s.text)))
			} else {
				ss = append(ss, fmt.Sprintf("(%d, %s, %s)", s.kind, ids(s.name), ids(s.arg)))
			}
		}
		fmt.Fprintf(&body, "  -- %s:%d\n  --   function: %s\n  --   method:   %s\n", p.file, p.line, p.fnTxt, p.methTxt)
		fmt.Fprintf(&body, "  (%q, %d, %v, [%s],\n    %s,\n    %s)", p.file, p.line, p.value, strings.Join(ss, ", "), ids(p.meth), ids(p.fn))
		if i+1 < len(pairs) {
			body.WriteString(",")
		}
		body.WriteString("\n")
	}
	body.WriteString("]\n\n")
	b.WriteString("/-- token table (a token of the lists below is an index into it) -/\ndef tokens : List String := [\n")
	for i, t := range table {
		sep := ","
		if i+1 == len(table) {
			sep = ""
		}
		fmt.Fprintf(&b, "  %q%s\n", t, sep)
	}
	b.WriteString("]\n\n")
	for i, n := range []string{"tFunc", "tLParen", "tRParen", "tEc", "tStar", "tExecCtx", "tDot", "tComma", "tAmp"} {
		fmt.Fprintf(&b, "def %s : Nat := %d\n", n, i)
	}
	// identifiers that follow `ec .` somewhere in an arm and are exported members of the runtime context
	var exp []string
	seen := map[int]bool{}
	for _, p := range pairs {
		for _, ts := range [][]string{p.meth, p.fn} {
			for i := 0; i+2 < len(ts); i++ {
				if ts[i] == "ec" && ts[i+1] == "." && fsExported(ts[i+2]) && !seen[id(ts[i+2])] {
					seen[id(ts[i+2])] = true
					exp = append(exp, fmt.Sprint(id(ts[i+2])))
				}
			}
		}
	}
	fmt.Fprintf(&b, "\n/-- exported members of the embedded runtime context reached through `ec.` inside an arm (not generated helpers) -/\ndef exportedMembers : List Nat := [%s]\n\n", strings.Join(exp, ", "))
	b.WriteString(body.String())
	b.WriteString("end GqlgenVerif.Gen.FuncSyntaxArms\n")
	return b.String(), nil
}
