package main

import (
	"fmt"
	"go/ast"
	"go/parser"
	"go/token"
	"os"
	"path/filepath"
	"sort"
	"strings"
)

// IntroStores (C07): package graphql/introspection wraps the server's *ast.Schema - the structure every request
// is validated against, shared by all requests of a server - and must only read it.
//
//	(a) (*Type).OfType, the NON_NULL arm `if t.typ.NonNull { cpy := <X>; cpy.NonNull = false; return … }`:
//	    X = `*t.typ` (a copy of the node) or `t.typ` (the schema's own node);
//	(b) every store of the package (non-test files) that is not an assignment to a plain variable - `x.f = v`,
//	    `x[i] = v`, `*p = v`, `x.f++` -: the function, the left-hand side, and whether it goes into something the
//	    function made itself (`own`: ONE selector on a local struct value / on a local `&T{…}`, ONE index on a local
//	    slice or map made by make / a literal / append / `var`) or through anything else (`shared`: receiver,
//	    parameter, range variable, a local assigned from any of these, a deeper path);
//	(c) every append / copy / delete / clear / sort.* whose first argument is not such a local container.
//
// Flow-insensitive and conservative: a local that is ever assigned anything but a fresh value is `shared`.
// Fails (broken tie) if (*Type).OfType or its NON_NULL arm is not found.
func init() { extractors["IntroStores"] = extractIntroStores }

func isRootIdent(e ast.Expr) (root *ast.Ident, selectors, indexes, stars int) {
	for {
		switch x := e.(type) {
		case *ast.Ident:
			return x, selectors, indexes, stars
		case *ast.SelectorExpr:
			selectors++
			e = x.X
		case *ast.IndexExpr:
			indexes++
			e = x.X
		case *ast.StarExpr:
			stars++
			e = x.X
		case *ast.ParenExpr:
			e = x.X
		default:
			return nil, selectors, indexes, stars
		}
	}
}

func extractIntroStores(repo string) (string, error) {
	fset := token.NewFileSet()
	dir := filepath.Join(repo, "graphql", "introspection")
	pkgs, err := parser.ParseDir(fset, dir, func(fi os.FileInfo) bool { return !strings.HasSuffix(fi.Name(), "_test.go") }, 0)
	if err != nil {
		return "", err
	}
	var funcs []*ast.FuncDecl
	for _, p := range pkgs {
		if p.Name != "introspection" {
			continue
		}
		var names []string
		for n := range p.Files {
			names = append(names, n)
		}
		sort.Strings(names)
		for _, n := range names {
			for _, d := range p.Files[n].Decls {
				if fd, ok := d.(*ast.FuncDecl); ok && fd.Body != nil {
					funcs = append(funcs, fd)
				}
			}
		}
	}
	// ---- (a)
	unwrap := ""
	for _, fd := range funcs {
		if fd.Name.Name != "OfType" || fd.Recv == nil || !strings.Contains(prSrc(fset, fd.Recv.List[0].Type), "Type") {
			continue
		}
		recv := fd.Recv.List[0].Names[0].Name
		for _, st := range fd.Body.List {
			is, ok := st.(*ast.IfStmt)
			if !ok || sfSel(is.Cond) != recv+".typ.NonNull" || len(is.Body.List) == 0 {
				continue
			}
			as, ok := is.Body.List[0].(*ast.AssignStmt)
			if !ok || as.Tok != token.DEFINE || len(as.Lhs) != 1 || len(as.Rhs) != 1 {
				return "", fmt.Errorf("OfType: the NON_NULL arm does not start with `cpy := …`: %s", prSrc(fset, is.Body.List[0]))
			}
			switch r := as.Rhs[0].(type) {
			case *ast.StarExpr:
				if sfSel(r.X) == recv+".typ" {
					unwrap = ".copy"
				}
			case *ast.SelectorExpr:
				if sfSel(r) == recv+".typ" {
					unwrap = ".alias"
				}
			}
			if unwrap == "" {
				return "", fmt.Errorf("OfType: cannot tell whether `%s` copies the node", prSrc(fset, as))
			}
		}
	}
	if unwrap == "" {
		return "", fmt.Errorf("(*Type).OfType with an `if t.typ.NonNull {…}` arm not found")
	}
	// ---- (b), (c)
	var stores, calls []string
	for _, fd := range funcs {
		kind := map[string]string{} // local -> value | ptr | container | shared
		fresh := func(e ast.Expr) string {
			switch x := e.(type) {
			case *ast.CompositeLit:
				switch x.Type.(type) {
				case *ast.ArrayType, *ast.MapType:
					return "container"
				}
				return "value"
			case *ast.UnaryExpr:
				if _, ok := x.X.(*ast.CompositeLit); ok && x.Op == token.AND {
					return "ptr"
				}
			case *ast.StarExpr:
				return "value" // a copy of the struct the pointer refers to (one level deep)
			case *ast.CallExpr:
				if id, ok := x.Fun.(*ast.Ident); ok {
					switch id.Name {
					case "make":
						return "container"
					case "append":
						if r, s, i, st := isRootIdent(x.Args[0]); r != nil && s+i+st == 0 && (kind[r.Name] == "container" || kind[r.Name] == "") {
							return "container"
						}
					}
				}
			case *ast.Ident:
				if x.Name == "nil" {
					return "container"
				}
			}
			return "shared"
		}
		set := func(name, k string) {
			if old, ok := kind[name]; ok && old != k {
				kind[name] = "shared"
				return
			}
			kind[name] = k
		}
		// parameters, receiver: shared
		if fd.Recv != nil {
			for _, f := range fd.Recv.List {
				for _, n := range f.Names {
					kind[n.Name] = "shared"
				}
			}
		}
		for _, f := range fd.Type.Params.List {
			for _, n := range f.Names {
				kind[n.Name] = "shared"
			}
		}
		for round := 0; round < 2; round++ {
			ast.Inspect(fd.Body, func(n ast.Node) bool {
				switch x := n.(type) {
				case *ast.AssignStmt:
					for i, l := range x.Lhs {
						id, ok := l.(*ast.Ident)
						if !ok || id.Name == "_" {
							continue
						}
						if len(x.Rhs) == len(x.Lhs) {
							set(id.Name, fresh(x.Rhs[i]))
						} else {
							set(id.Name, "shared")
						}
					}
				case *ast.RangeStmt:
					for _, e := range []ast.Expr{x.Key, x.Value} {
						if id, ok := e.(*ast.Ident); ok && id.Name != "_" && x.Tok == token.DEFINE {
							kind[id.Name] = "shared"
						}
					}
				case *ast.DeclStmt:
					if gd, ok := x.Decl.(*ast.GenDecl); ok {
						for _, sp := range gd.Specs {
							if vs, ok := sp.(*ast.ValueSpec); ok {
								for i, n := range vs.Names {
									switch {
									case i < len(vs.Values):
										set(n.Name, fresh(vs.Values[i]))
									default:
										switch vs.Type.(type) {
										case *ast.ArrayType, *ast.MapType:
											set(n.Name, "container")
										case *ast.StarExpr, *ast.InterfaceType, *ast.FuncType, *ast.ChanType:
											set(n.Name, "shared")
										default:
											set(n.Name, "value")
										}
									}
								}
							}
						}
					}
				}
				return true
			})
		}
		classify := func(lhs ast.Expr) string {
			r, sel, idx, st := isRootIdent(lhs)
			if r == nil {
				return ".shared"
			}
			switch kind[r.Name] {
			case "value", "ptr":
				if sel == 1 && idx == 0 && st == 0 {
					return ".own"
				}
			case "container":
				if sel == 0 && idx == 1 && st == 0 {
					return ".own"
				}
			}
			return ".shared"
		}
		ast.Inspect(fd.Body, func(n ast.Node) bool {
			switch x := n.(type) {
			case *ast.AssignStmt:
				for _, l := range x.Lhs {
					if _, ok := l.(*ast.Ident); ok {
						continue
					}
					stores = append(stores, fmt.Sprintf("(%q, %q, %s)", fd.Name.Name, prSrc(fset, l), classify(l)))
				}
			case *ast.IncDecStmt:
				if _, ok := x.X.(*ast.Ident); !ok {
					stores = append(stores, fmt.Sprintf("(%q, %q, %s)", fd.Name.Name, prSrc(fset, x.X), classify(x.X)))
				}
			case *ast.CallExpr:
				name := sfSel(x.Fun)
				mut := name == "append" || name == "copy" || name == "delete" || name == "clear" || strings.HasPrefix(name, "sort.") || strings.HasPrefix(name, "slices.Sort") || name == "slices.Reverse"
				if mut && len(x.Args) > 0 {
					r, sel, idx, st := isRootIdent(x.Args[0])
					if r == nil || sel+idx+st != 0 || kind[r.Name] != "container" {
						if _, lit := x.Args[0].(*ast.CompositeLit); !lit {
							calls = append(calls, fmt.Sprintf("(%q, %q)", fd.Name.Name, prSrc(fset, x)))
						}
					}
				}
			}
			return true
		})
	}
	var b strings.Builder
	b.WriteString("import GqlgenVerif.Model.IntroHeap\n\nnamespace GqlgenVerif.Gen.IntroStores\nopen GqlgenVerif.IntroHeap\n\n")
	b.WriteString("/-- graphql/introspection/type.go (*Type).OfType, NON_NULL arm: how the node whose NonNull is cleared is obtained -/\n")
	fmt.Fprintf(&b, "def ofTypeUnwrap : Unwrap := %s\n\n", unwrap)
	b.WriteString("/-- every store of package introspection that is not an assignment to a plain variable: (function, left-hand side, where it goes) -/\n")
	b.WriteString("def stores : List (String × String × Root) := [" + strings.Join(stores, ", ") + "]\n\n")
	b.WriteString("/-- append / copy / delete / clear / sort calls whose first argument is not a container the function made itself: (function, call) -/\n")
	b.WriteString("def mutatingCallsOnShared : List (String × String) := [" + strings.Join(calls, ", ") + "]\n\nend GqlgenVerif.Gen.IntroStores\n")
	return b.String(), nil
}
