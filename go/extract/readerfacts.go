package main

import (
	"fmt"
	"go/ast"
	"go/parser"
	"go/token"
	"os"
	"path/filepath"
	"strings"
)

// ReaderFacts (C10, what user code may do with an uploaded file): the in-memory io.ReadSeeker of
// /repo/graphql/handler/transport/reader.go, statement by statement, and its one construction site.
//
// Recognised shape (anything else: exit 1, a broken tie):
//
//	type bytesReader struct { s *[]byte; i int64 }
//
//	func (r *bytesReader) Read(b []byte) (n int, err error) {
//		if r.s == nil { return 0, <error> }
//		if r.i <cmp> int64(len(*r.s)) { return 0, io.EOF }          -> eofCmp (operands may be swapped)
//		n = copy(b, (*r.s)[r.i:])
//		r.i += int64(n)                                              -> advance (may be missing)
//		return
//	}
//
//	func (r *bytesReader) Seek(offset int64, whence int) (int64, error) {
//		if r.s == nil { return 0, <error> }
//		var abs int64
//		switch whence {
//		case io.SeekStart:   abs = offset                            -> (0, zero)
//		case io.SeekCurrent: abs = r.i + offset                      -> (1, cur)
//		case io.SeekEnd:     abs = int64(len(*r.s)) + offset         -> (2, len)
//		default:             return 0, <error>
//		}
//		if abs <cmp> 0 { return 0, <error> }                         -> refuse (may be missing)
//		r.i = abs                                                    -> store (may be missing)
//		return abs, nil
//	}
//
// and in the package's non-test files exactly one composite literal `bytesReader{s: &fileBytes, i: <int>}`
// (initPos), whether it stands inside `for _, path := range paths` (perPath).
func init() { extractors["ReaderFacts"] = extractReaderFacts }

func extractReaderFacts(repo string) (string, error) {
	dir := filepath.Join(repo, "graphql", "handler", "transport")
	fset := token.NewFileSet()
	ents, err := os.ReadDir(dir)
	if err != nil {
		return "", err
	}
	var read, seek *ast.FuncDecl
	var typ *ast.StructType
	var lits []*ast.CompositeLit
	perPath := false
	for _, ent := range ents {
		if !strings.HasSuffix(ent.Name(), ".go") || strings.HasSuffix(ent.Name(), "_test.go") {
			continue
		}
		f, err := parser.ParseFile(fset, filepath.Join(dir, ent.Name()), nil, 0)
		if err != nil {
			return "", err
		}
		for _, d := range f.Decls {
			switch x := d.(type) {
			case *ast.FuncDecl:
				if x.Recv != nil && len(x.Recv.List) == 1 && pgSrc(fset, x.Recv.List[0].Type) == "*bytesReader" {
					if len(x.Recv.List[0].Names) != 1 || x.Recv.List[0].Names[0].Name != "r" {
						return "", fmt.Errorf("%s: receiver of bytesReader.%s is not named r", fset.Position(x.Pos()), x.Name.Name)
					}
					switch x.Name.Name {
					case "Read":
						read = x
					case "Seek":
						seek = x
					default:
						return "", fmt.Errorf("%s: unknown method bytesReader.%s", fset.Position(x.Pos()), x.Name.Name)
					}
				}
			case *ast.GenDecl:
				for _, sp := range x.Specs {
					if ts, ok := sp.(*ast.TypeSpec); ok && ts.Name.Name == "bytesReader" {
						typ, _ = ts.Type.(*ast.StructType)
					}
				}
			}
		}
		// construction sites, with the enclosing range statements
		var stack []ast.Node
		ast.Inspect(f, func(n ast.Node) bool {
			if n == nil {
				stack = stack[:len(stack)-1]
				return true
			}
			stack = append(stack, n)
			if cl, ok := n.(*ast.CompositeLit); ok && cl.Type != nil && pgSrc(fset, cl.Type) == "bytesReader" {
				lits = append(lits, cl)
				for _, s := range stack {
					if rs, ok := s.(*ast.RangeStmt); ok && pgSrc(fset, rs.X) == "paths" {
						perPath = true
					}
				}
			}
			return true
		})
	}
	if typ == nil || read == nil || seek == nil {
		return "", fmt.Errorf("graphql/handler/transport: type bytesReader with methods Read and Seek not found")
	}
	var fields []string
	for _, fl := range typ.Fields.List {
		for _, n := range fl.Names {
			fields = append(fields, n.Name+" "+pgSrc(fset, fl.Type))
		}
	}
	if strings.Join(fields, "; ") != "s *[]byte; i int64" {
		return "", fmt.Errorf("bytesReader has fields {%s}, expected {s *[]byte; i int64}", strings.Join(fields, "; "))
	}
	fail := func(n ast.Node, f string, a ...any) (string, error) {
		return "", fmt.Errorf("%s: bytesReader: %s", fset.Position(n.Pos()), fmt.Sprintf(f, a...))
	}
	cmpName := map[token.Token]string{token.GEQ: "ge", token.GTR: "gt", token.EQL: "eq", token.NEQ: "ne", token.LEQ: "le", token.LSS: "lt"}
	flip := map[string]string{"ge": "le", "gt": "lt", "eq": "eq", "ne": "ne", "le": "ge", "lt": "gt"}
	const lenExpr = "int64(len(*r.s))"
	// an `if` whose body is exactly one return of (0, <something that is not nil>)
	errReturn := func(s *ast.IfStmt, second string) bool {
		if s.Init != nil || s.Else != nil || len(s.Body.List) != 1 {
			return false
		}
		ret, ok := s.Body.List[0].(*ast.ReturnStmt)
		if !ok || len(ret.Results) != 2 || pgSrc(fset, ret.Results[0]) != "0" {
			return false
		}
		got := pgSrc(fset, ret.Results[1])
		if second != "" {
			return got == second
		}
		return got != "nil" && got != "io.EOF"
	}
	nilGuard := func(st ast.Stmt) bool {
		s, ok := st.(*ast.IfStmt)
		return ok && pgSrc(fset, s.Cond) == "r.s == nil" && errReturn(s, "")
	}

	// ---- Read
	if got := pgSrc(fset, read.Type); got != "func(b []byte) (n int, err error)" {
		return fail(read, "Read has signature %q", got)
	}
	rl := read.Body.List
	if len(rl) < 4 || !nilGuard(rl[0]) {
		return fail(read, "Read does not start with the nil-slice guard")
	}
	eofCmp := ""
	if s, ok := rl[1].(*ast.IfStmt); ok && errReturn(s, "io.EOF") {
		if be, ok := s.Cond.(*ast.BinaryExpr); ok {
			x, y, op := pgSrc(fset, be.X), pgSrc(fset, be.Y), cmpName[be.Op]
			switch {
			case op != "" && x == "r.i" && y == lenExpr:
				eofCmp = op
			case op != "" && y == "r.i" && x == lenExpr:
				eofCmp = flip[op]
			}
		}
	}
	if eofCmp == "" {
		return fail(rl[1], "the end-of-data test is not `if r.i <cmp> int64(len(*r.s)) { return 0, io.EOF }`: %q", pgSrc(fset, rl[1]))
	}
	if got := pgSrc(fset, rl[2]); got != "n = copy(b, (*r.s)[r.i:])" {
		return fail(rl[2], "expected `n = copy(b, (*r.s)[r.i:])`, found %q", got)
	}
	advance := false
	rest := rl[3:]
	if pgSrc(fset, rest[0]) == "r.i += int64(n)" {
		advance = true
		rest = rest[1:]
	}
	if len(rest) != 1 || pgSrc(fset, rest[0]) != "return" {
		return fail(read, "Read does not end with `[r.i += int64(n);] return` after the copy")
	}

	// ---- Seek
	if got := pgSrc(fset, seek.Type); got != "func(offset int64, whence int) (int64, error)" {
		return fail(seek, "Seek has signature %q", got)
	}
	sl := seek.Body.List
	if len(sl) < 4 || !nilGuard(sl[0]) || pgSrc(fset, sl[1]) != "var abs int64" {
		return fail(seek, "Seek does not start with the nil-slice guard and `var abs int64`")
	}
	sw, ok := sl[2].(*ast.SwitchStmt)
	if !ok || sw.Init != nil || pgSrc(fset, sw.Tag) != "whence" {
		return fail(sl[2], "expected `switch whence`")
	}
	whenceConst := map[string]int{"io.SeekStart": 0, "io.SeekCurrent": 1, "io.SeekEnd": 2, "0": 0, "1": 1, "2": 2}
	baseOf := map[string]string{
		"abs = offset":                   "zero",
		"abs = r.i + offset":             "cur",
		"abs = offset + r.i":             "cur",
		"abs = " + lenExpr + " + offset": "len",
		"abs = offset + " + lenExpr:      "len",
	}
	var arms []string
	seen := map[int]bool{}
	hasDefault := false
	for _, c := range sw.Body.List {
		cc := c.(*ast.CaseClause)
		if cc.List == nil {
			if len(cc.Body) != 1 {
				return fail(cc, "the default arm is not a single return")
			}
			ret, ok := cc.Body[0].(*ast.ReturnStmt)
			if !ok || len(ret.Results) != 2 || pgSrc(fset, ret.Results[0]) != "0" || pgSrc(fset, ret.Results[1]) == "nil" {
				return fail(cc, "the default arm does not return an error")
			}
			hasDefault = true
			continue
		}
		if len(cc.Body) != 1 {
			return fail(cc, "arm with %d statements", len(cc.Body))
		}
		b, ok := baseOf[pgSrc(fset, cc.Body[0])]
		if !ok {
			return fail(cc, "unknown arm body %q", pgSrc(fset, cc.Body[0]))
		}
		for _, e := range cc.List {
			v, ok := whenceConst[pgSrc(fset, e)]
			if !ok {
				return fail(cc, "unknown whence constant %q", pgSrc(fset, e))
			}
			if seen[v] {
				return fail(cc, "whence %d twice", v)
			}
			seen[v] = true
			arms = append(arms, fmt.Sprintf("(%d, .%s)", v, b))
		}
	}
	if !hasDefault {
		return fail(sw, "no default arm: an unknown whence falls through to the store")
	}
	rest = sl[3:]
	refuse := "none"
	if s, ok := rest[0].(*ast.IfStmt); ok {
		be, isBin := s.Cond.(*ast.BinaryExpr)
		if !isBin || !errReturn(s, "") {
			return fail(s, "unknown if statement %q", pgSrc(fset, s))
		}
		x, y, op := pgSrc(fset, be.X), pgSrc(fset, be.Y), cmpName[be.Op]
		switch {
		case op != "" && x == "abs" && y == "0":
			refuse = "some ." + op
		case op != "" && x == "0" && y == "abs":
			refuse = "some ." + flip[op]
		default:
			return fail(s, "unknown position test %q", pgSrc(fset, s.Cond))
		}
		rest = rest[1:]
	}
	store := false
	if len(rest) > 0 && pgSrc(fset, rest[0]) == "r.i = abs" {
		store = true
		rest = rest[1:]
	}
	if len(rest) != 1 || pgSrc(fset, rest[0]) != "return abs, nil" {
		return fail(seek, "Seek does not end with `[if abs < 0 {…}] [r.i = abs;] return abs, nil` after the switch")
	}

	// ---- construction
	if len(lits) != 1 {
		return "", fmt.Errorf("graphql/handler/transport: %d composite literals of bytesReader, expected 1", len(lits))
	}
	initPos := "0"
	sOK := false
	for _, el := range lits[0].Elts {
		kv, ok := el.(*ast.KeyValueExpr)
		if !ok {
			return fail(el, "positional composite literal")
		}
		switch pgSrc(fset, kv.Key) {
		case "s":
			sOK = pgSrc(fset, kv.Value) == "&fileBytes"
		case "i":
			bl, ok := kv.Value.(*ast.BasicLit)
			if !ok || bl.Kind != token.INT {
				return fail(kv, "initial position %q is not an integer literal", pgSrc(fset, kv.Value))
			}
			initPos = bl.Value
		}
	}
	if !sOK {
		return fail(lits[0], "the reader is not constructed over &fileBytes")
	}

	var b strings.Builder
	b.WriteString("import GqlgenVerif.Model.ReadSeeker\nnamespace GqlgenVerif.Gen.ReaderFacts\nopen GqlgenVerif.ReadSeeker\n\n")
	b.WriteString("/-- graphql/handler/transport/reader.go (*bytesReader).Read / Seek and the construction in http_form_multipart.go -/\n")
	fmt.Fprintf(&b, "def facts : Facts :=\n  { eofCmp := .%s, advance := %v, whence := [%s], refuse := %s, store := %v,\n    initPos := %s, perPath := %v }\n\n",
		eofCmp, advance, strings.Join(arms, ", "), refuse, store, initPos, perPath)
	b.WriteString("end GqlgenVerif.Gen.ReaderFacts\n")
	return b.String(), nil
}
