package main

import (
	"fmt"
	"go/ast"
	"go/parser"
	"go/token"
	"os"
	"path/filepath"
	"sort"
	"strings"
)

// RespHeaders: the facts the C07 proof needs about the transports' long-lived configuration, the
// `ResponseHeaders map[string][]string` every HTTP transport carries and that outlives every request:
//
//	(a) `mergeHeaders` (graphql/handler/transport/headers.go), the function every transport hands its
//	    configured map to on every request, translated statement by statement into the small map language
//	    `RH.HStmt` of Model/RespHeaders.lean (make / alias / range-copy / early return / return). The
//	    theorem `merge_headers_pure` re-decides on the translation that no statement stores into a map that
//	    was passed in, which is the hypothesis of `response_headers_history_independent`.
//	(b) every statement of package transport (non-test files) that stores into a map (or calls a mutating
//	    http.Header method on one) which is reachable from a function parameter of map type, from a field of
//	    a transport receiver (a type with a `Supports` method) or from a package-level variable - i.e. into
//	    something that can outlive the request. Today there is none.
//
// The extractor fails (broken tie) when `mergeHeaders` has a statement outside the map language.
func init() { extractors["RespHeaders"] = extractRespHeaders }

func rhIsMapType(e ast.Expr) bool {
	switch t := e.(type) {
	case *ast.MapType:
		return true
	case *ast.SelectorExpr:
		if x, ok := t.X.(*ast.Ident); ok && x.Name == "http" && t.Sel.Name == "Header" {
			return true
		}
	}
	return false
}

func rhIdent(e ast.Expr) (string, bool) {
	if p, ok := e.(*ast.ParenExpr); ok {
		return rhIdent(p.X)
	}
	id, ok := e.(*ast.Ident)
	if !ok || id.Name == "_" || id.Name == "nil" {
		return "", false
	}
	return id.Name, true
}

// `len(x) == 0`
func rhLenZero(e ast.Expr) (string, bool) {
	b, ok := e.(*ast.BinaryExpr)
	if !ok || b.Op != token.EQL {
		return "", false
	}
	lit, ok := b.Y.(*ast.BasicLit)
	if !ok || lit.Value != "0" {
		return "", false
	}
	c, ok := b.X.(*ast.CallExpr)
	if !ok || len(c.Args) != 1 {
		return "", false
	}
	if f, ok := c.Fun.(*ast.Ident); !ok || f.Name != "len" {
		return "", false
	}
	return rhIdent(c.Args[0])
}

// `d[k] = v` with the loop's own key and value
func rhStore(st ast.Stmt, k, v string) (string, bool) {
	as, ok := st.(*ast.AssignStmt)
	if !ok || as.Tok != token.ASSIGN || len(as.Lhs) != 1 || len(as.Rhs) != 1 {
		return "", false
	}
	ix, ok := as.Lhs[0].(*ast.IndexExpr)
	if !ok {
		return "", false
	}
	d, ok1 := rhIdent(ix.X)
	ki, ok2 := rhIdent(ix.Index)
	vi, ok3 := rhIdent(as.Rhs[0])
	if !ok1 || !ok2 || !ok3 || ki != k || vi != v {
		return "", false
	}
	return d, true
}

func rhTranslate(fset *token.FileSet, body []ast.Stmt) ([]string, error) {
	var out []string
	q := prLeanStr
	for _, st := range body {
		switch s := st.(type) {
		case *ast.AssignStmt:
			if s.Tok != token.DEFINE && s.Tok != token.ASSIGN || len(s.Lhs) != 1 || len(s.Rhs) != 1 {
				return nil, fmt.Errorf("mergeHeaders: unsupported assignment %s", prSrc(fset, s))
			}
			x, ok := rhIdent(s.Lhs[0])
			if !ok {
				return nil, fmt.Errorf("mergeHeaders: unsupported assignment target %s", prSrc(fset, s))
			}
			switch r := s.Rhs[0].(type) {
			case *ast.CallExpr:
				f, ok := r.Fun.(*ast.Ident)
				if !ok || f.Name != "make" || len(r.Args) < 1 || !rhIsMapType(r.Args[0]) {
					return nil, fmt.Errorf("mergeHeaders: unsupported right-hand side %s", prSrc(fset, s))
				}
				out = append(out, ".mk "+q(x))
			case *ast.CompositeLit:
				if !rhIsMapType(r.Type) || len(r.Elts) != 0 {
					return nil, fmt.Errorf("mergeHeaders: unsupported right-hand side %s", prSrc(fset, s))
				}
				out = append(out, ".mk "+q(x))
			default:
				y, ok := rhIdent(s.Rhs[0])
				if !ok {
					return nil, fmt.Errorf("mergeHeaders: unsupported right-hand side %s", prSrc(fset, s))
				}
				out = append(out, ".alias "+q(x)+" "+q(y))
			}
		case *ast.RangeStmt:
			k, ok1 := rhIdent(s.Key)
			v, ok2 := rhIdent(s.Value)
			src, ok3 := rhIdent(s.X)
			if !ok1 || !ok2 || !ok3 || s.Tok != token.DEFINE || len(s.Body.List) != 1 {
				return nil, fmt.Errorf("mergeHeaders: unsupported loop %s", prSrc(fset, s))
			}
			if d, ok := rhStore(s.Body.List[0], k, v); ok {
				out = append(out, fmt.Sprintf(".copy %s %s false", q(src), q(d)))
				continue
			}
			// if _, ok := d[k]; !ok { d[k] = v }
			is, ok := s.Body.List[0].(*ast.IfStmt)
			if !ok || is.Else != nil || is.Init == nil || len(is.Body.List) != 1 {
				return nil, fmt.Errorf("mergeHeaders: unsupported loop body %s", prSrc(fset, s))
			}
			d, ok := rhStore(is.Body.List[0], k, v)
			init, ok2 := is.Init.(*ast.AssignStmt)
			if !ok || !ok2 || len(init.Lhs) != 2 || len(init.Rhs) != 1 {
				return nil, fmt.Errorf("mergeHeaders: unsupported loop body %s", prSrc(fset, s))
			}
			okVar, okb := rhIdent(init.Lhs[1])
			ix, okc := init.Rhs[0].(*ast.IndexExpr)
			neg, okd := is.Cond.(*ast.UnaryExpr)
			if b, isBlank := init.Lhs[0].(*ast.Ident); !isBlank || b.Name != "_" || !okb || !okc || !okd || neg.Op != token.NOT {
				return nil, fmt.Errorf("mergeHeaders: unsupported loop body %s", prSrc(fset, s))
			}
			condVar, oke := rhIdent(neg.X)
			d2, okf := rhIdent(ix.X)
			k2, okg := rhIdent(ix.Index)
			if !oke || !okf || !okg || condVar != okVar || d2 != d || k2 != k {
				return nil, fmt.Errorf("mergeHeaders: unsupported loop body %s", prSrc(fset, s))
			}
			out = append(out, fmt.Sprintf(".copy %s %s true", q(src), q(d)))
		case *ast.IfStmt:
			t, ok := rhLenZero(s.Cond)
			if !ok || s.Init != nil || s.Else != nil || len(s.Body.List) != 1 {
				return nil, fmt.Errorf("mergeHeaders: unsupported if %s", prSrc(fset, s))
			}
			ret, ok := s.Body.List[0].(*ast.ReturnStmt)
			if !ok || len(ret.Results) != 1 {
				return nil, fmt.Errorf("mergeHeaders: unsupported if %s", prSrc(fset, s))
			}
			r, ok := rhIdent(ret.Results[0])
			if !ok {
				return nil, fmt.Errorf("mergeHeaders: unsupported return %s", prSrc(fset, s))
			}
			out = append(out, fmt.Sprintf(".retIfEmpty %s %s", q(t), q(r)))
		case *ast.ReturnStmt:
			if len(s.Results) != 1 {
				return nil, fmt.Errorf("mergeHeaders: unsupported return %s", prSrc(fset, s))
			}
			r, ok := rhIdent(s.Results[0])
			if !ok {
				return nil, fmt.Errorf("mergeHeaders: unsupported return %s", prSrc(fset, s))
			}
			out = append(out, ".ret "+q(r))
		default:
			return nil, fmt.Errorf("mergeHeaders: statement outside the map language: %s", prSrc(fset, st))
		}
	}
	return out, nil
}

func extractRespHeaders(repo string) (string, error) {
	fset := token.NewFileSet()
	tdir := filepath.Join(repo, "graphql", "handler", "transport")
	pkgs, err := parser.ParseDir(fset, tdir, func(fi os.FileInfo) bool { return !strings.HasSuffix(fi.Name(), "_test.go") }, 0)
	if err != nil {
		return "", err
	}
	pkg := pkgs["transport"]
	if pkg == nil {
		return "", fmt.Errorf("package transport not found in %s", tdir)
	}
	var files []string
	for fn := range pkg.Files {
		files = append(files, fn)
	}
	sort.Strings(files)

	// package-level facts: functions, transport types (have a Supports method), package-level map variables
	pkgFuncs := map[string]bool{}
	transportTypes := map[string]bool{}
	shared := map[string]bool{}
	mapFields := map[string]map[string]bool{} // struct type -> its map-typed fields
	var merge *ast.FuncDecl
	recvType := func(fd *ast.FuncDecl) string {
		if fd.Recv == nil || len(fd.Recv.List) != 1 {
			return ""
		}
		t := fd.Recv.List[0].Type
		if s, ok := t.(*ast.StarExpr); ok {
			t = s.X
		}
		if ix, ok := t.(*ast.IndexExpr); ok {
			t = ix.X
		}
		if id, ok := t.(*ast.Ident); ok {
			return id.Name
		}
		return ""
	}
	for _, fn := range files {
		for _, d := range pkg.Files[fn].Decls {
			switch t := d.(type) {
			case *ast.FuncDecl:
				if t.Recv == nil {
					pkgFuncs[t.Name.Name] = true
					if t.Name.Name == "mergeHeaders" {
						merge = t
					}
				} else if t.Name.Name == "Supports" {
					transportTypes[recvType(t)] = true
				}
			case *ast.GenDecl:
				if t.Tok == token.TYPE {
					for _, sp := range t.Specs {
						ts := sp.(*ast.TypeSpec)
						if st, ok := ts.Type.(*ast.StructType); ok {
							for _, f := range st.Fields.List {
								if rhIsMapType(f.Type) {
									for _, n := range f.Names {
										if mapFields[ts.Name.Name] == nil {
											mapFields[ts.Name.Name] = map[string]bool{}
										}
										mapFields[ts.Name.Name][n.Name] = true
									}
								}
							}
						}
					}
				}
				if t.Tok != token.VAR {
					continue
				}
				for _, sp := range t.Specs {
					vs := sp.(*ast.ValueSpec)
					isMap := vs.Type != nil && rhIsMapType(vs.Type)
					for i, n := range vs.Names {
						if isMap {
							shared[n.Name] = true
						} else if i < len(vs.Values) {
							if cl, ok := vs.Values[i].(*ast.CompositeLit); ok && cl.Type != nil && rhIsMapType(cl.Type) {
								shared[n.Name] = true
							}
						}
					}
				}
			}
		}
	}
	if merge == nil || merge.Body == nil {
		return "", fmt.Errorf("func mergeHeaders not found in package transport")
	}
	var params []string
	for _, f := range merge.Type.Params.List {
		if !rhIsMapType(f.Type) {
			return "", fmt.Errorf("mergeHeaders: parameter of type %s", prSrc(fset, f.Type))
		}
		for _, n := range f.Names {
			params = append(params, n.Name)
		}
	}
	if len(params) != 2 || merge.Type.Results == nil || len(merge.Type.Results.List) != 1 || !rhIsMapType(merge.Type.Results.List[0].Type) {
		return "", fmt.Errorf("mergeHeaders: signature is no longer (base, additional map) map: %s", prSrc(fset, merge.Type))
	}
	prog, err := rhTranslate(fset, merge.Body.List)
	if err != nil {
		return "", err
	}

	// (b) stores into maps that can outlive the request
	type write struct{ file, fn, src string }
	var writes []write
	nfuncs := 0
	for _, fn := range files {
		for _, d := range pkg.Files[fn].Decls {
			fd, ok := d.(*ast.FuncDecl)
			if !ok || fd.Body == nil {
				continue
			}
			nfuncs++
			taint := map[string]bool{}
			for k := range shared {
				taint[k] = true
			}
			for _, f := range fd.Type.Params.List {
				if rhIsMapType(f.Type) {
					for _, n := range f.Names {
						taint[n.Name] = true
					}
				}
			}
			recv, recvFields := "", map[string]bool{}
			if transportTypes[recvType(fd)] && len(fd.Recv.List[0].Names) == 1 {
				recv, recvFields = fd.Recv.List[0].Names[0].Name, mapFields[recvType(fd)]
			}
			var tainted func(e ast.Expr) bool
			tainted = func(e ast.Expr) bool {
				switch t := e.(type) {
				case *ast.Ident:
					return taint[t.Name]
				case *ast.SelectorExpr: // a map-typed field of the transport receiver (h.ResponseHeaders)
					x, ok := t.X.(*ast.Ident)
					return ok && recv != "" && x.Name == recv && recvFields[t.Sel.Name]
				case *ast.IndexExpr: // an entry of a shared map (a []string that aliases it)
					return tainted(t.X)
				case *ast.ParenExpr:
					return tainted(t.X)
				case *ast.StarExpr:
					return tainted(t.X)
				case *ast.UnaryExpr:
					return tainted(t.X)
				case *ast.SliceExpr:
					return tainted(t.X)
				case *ast.CallExpr:
					// the result of a package-level function may alias any map it was given
					if f, ok := t.Fun.(*ast.Ident); ok && pkgFuncs[f.Name] {
						for _, a := range t.Args {
							if tainted(a) {
								return true
							}
						}
					}
					return false
				case *ast.TypeAssertExpr:
					return tainted(t.X)
				}
				return false
			}
			for changed := true; changed; {
				changed = false
				mark := func(e ast.Expr) {
					if n, ok := rhIdent(e); ok && !taint[n] {
						taint[n], changed = true, true
					}
				}
				ast.Inspect(fd.Body, func(n ast.Node) bool {
					switch s := n.(type) {
					case *ast.AssignStmt:
						if len(s.Lhs) == len(s.Rhs) {
							for i := range s.Lhs {
								if tainted(s.Rhs[i]) {
									mark(s.Lhs[i])
								}
							}
						} else if len(s.Rhs) == 1 && tainted(s.Rhs[0]) {
							for _, l := range s.Lhs {
								mark(l)
							}
						}
					case *ast.RangeStmt:
						if tainted(s.X) && s.Value != nil { // the values of a map[string][]string are slices that alias it
							mark(s.Value)
						}
					case *ast.ValueSpec:
						for i, nm := range s.Names {
							if i < len(s.Values) && tainted(s.Values[i]) {
								mark(nm)
							}
						}
					}
					return true
				})
			}
			name := fd.Name.Name
			if rt := recvType(fd); rt != "" {
				name = rt + "." + name
			}
			ast.Inspect(fd.Body, func(n ast.Node) bool {
				switch s := n.(type) {
				case *ast.AssignStmt:
					for _, l := range s.Lhs {
						if ix, ok := l.(*ast.IndexExpr); ok && tainted(ix.X) {
							writes = append(writes, write{filepath.Base(fn), name, prSrc(fset, s)})
						}
					}
				case *ast.IncDecStmt:
					if ix, ok := s.X.(*ast.IndexExpr); ok && tainted(ix.X) {
						writes = append(writes, write{filepath.Base(fn), name, prSrc(fset, s)})
					}
				case *ast.CallExpr:
					if f, ok := s.Fun.(*ast.Ident); ok && (f.Name == "delete" || f.Name == "clear") && len(s.Args) >= 1 && tainted(s.Args[0]) {
						writes = append(writes, write{filepath.Base(fn), name, prSrc(fset, s)})
					}
					if sel, ok := s.Fun.(*ast.SelectorExpr); ok && (sel.Sel.Name == "Set" || sel.Sel.Name == "Add" || sel.Sel.Name == "Del") && tainted(sel.X) {
						// a mutating http.Header method on a shared map value, e.g. http.Header(h.ResponseHeaders).Set is not
						// matched (conversion), h.ResponseHeaders.Set / headers.Del is
						writes = append(writes, write{filepath.Base(fn), name, prSrc(fset, s)})
					}
				}
				return true
			})
		}
	}

	var b strings.Builder
	b.WriteString("import GqlgenVerif.Model.RespHeaders\n")
	b.WriteString("namespace GqlgenVerif.Gen.RespHeaders\nopen GqlgenVerif.RH\n\n")
	b.WriteString("/-- the two map parameters of `mergeHeaders` (graphql/handler/transport/headers.go): base, additional -/\n")
	fmt.Fprintf(&b, "def mergeParams : List String := [%s, %s]\n\n", prLeanStr(params[0]), prLeanStr(params[1]))
	b.WriteString("/-- the body of `mergeHeaders`, statement by statement, in the map language of Model/RespHeaders.lean -/\n")
	b.WriteString("def mergeProg : List HStmt := [" + strings.Join(prog, ", ") + "]\n\n")
	b.WriteString("/-- statements of package transport (non-test files) that store into a map reachable from a map parameter, a\n    field of a transport receiver or a package-level variable: (file, function, statement) -/\n")
	var ws []string
	for _, w := range writes {
		ws = append(ws, fmt.Sprintf("(%s, %s, %s)", prLeanStr(w.file), prLeanStr(w.fn), prLeanStr(w.src)))
	}
	b.WriteString("def sharedMapWrites : List (String × String × String) := [" + strings.Join(ws, ", ") + "]\n\n")
	var tts []string
	for t := range transportTypes {
		tts = append(tts, prLeanStr(t))
	}
	sort.Strings(tts)
	b.WriteString("/-- the transport types (types with a `Supports` method) and the number of function bodies scanned -/\n")
	b.WriteString("def transportTypes : List String := [" + strings.Join(tts, ", ") + "]\n")
	fmt.Fprintf(&b, "def functionsScanned : Nat := %d\n\n", nfuncs)
	b.WriteString("end GqlgenVerif.Gen.RespHeaders\n")
	return b.String(), nil
}
