package main

import (
	"bytes"
	"fmt"
	"go/ast"
	"go/parser"
	"go/printer"
	"go/token"
	"path/filepath"
	"strconv"
	"strings"
)

// PkgNameRules (C17): how the Go package name of a generated file is DERIVED when `package:` is left out of gqlgen.yml.
//
//	internal/code/imports.go  func NameForDir(dir string) string
//	    dir, err := filepath.Abs(dir);  if err != nil { return E1 }
//	    files, err := os.ReadDir(dir);  if err != nil { return E2 }
//	    for _, file := range files { if !strings.HasSuffix(strings.ToLower(file.Name()), ".go") { continue }
//	        … if src, err := parser.ParseFile(…, parser.PackageClauseOnly); err == nil { return E3 } }
//	    return E4
//	  -> def retAbsError / retReadDirError / retPackageClause / retNoGoFile (sanitize) (base clause) := <E translated>
//	     (E over `SanitizePackageName(x)`, `filepath.Base(dir)`, `src.Name.Name`), goSuffix, suffixLowered
//	internal/code/util.go     var invalidPackageNameChar = regexp.MustCompile(`…`);  func SanitizePackageName
//	    name := invalidPackageNameChar.ReplaceAllLiteralString(filepath.Base(pkg), "_")
//	    if <cond over name == "_", token.IsKeyword(name), name[0] >= '0' && name[0] <= '9'> { name = "_" + name }
//	    return name
//	  -> invalidCharRegex, replacement, sanitizeGuard (translated structurally), guardFix
//	codegen/config/{exec,package,resolver}.go  Check(): `if <x>.Package == "" … { <x>.Package = <expr> }`
//	  -> derivedPackage : (section, "nameForDir(Dir)" | "base(Dir)" | "sanitize(base(Dir))" | other:<source>)
//
// Fails when a function no longer has that statement shape.
func init() { extractors["PkgNameRules"] = extractPkgNameRules }

func pnSrc(fset *token.FileSet, n ast.Node) string {
	var b bytes.Buffer
	_ = printer.Fprint(&b, fset, n)
	return b.String()
}

func pnLeanStr(s string) string {
	var b strings.Builder
	b.WriteByte('"')
	for _, c := range s {
		switch {
		case c == '"' || c == '\\':
			b.WriteByte('\\')
			b.WriteRune(c)
		case c == '\n':
			b.WriteString("\\n")
		case c == '\t':
			b.WriteString("\\t")
		default:
			b.WriteRune(c)
		}
	}
	b.WriteByte('"')
	return b.String()
}

func pnCodePoints(s string) string {
	var xs []string
	for _, c := range s {
		xs = append(xs, strconv.Itoa(int(c)))
	}
	return "[" + strings.Join(xs, ", ") + "]"
}

// a return expression of NameForDir over sanitize / base / clause
func pnNameExpr(fset *token.FileSet, e ast.Expr, dirVar, srcVar string) (string, error) {
	switch e := e.(type) {
	case *ast.ParenExpr:
		return pnNameExpr(fset, e.X, dirVar, srcVar)
	case *ast.CallExpr:
		fn := trSel(e.Fun)
		if len(e.Args) == 1 {
			switch fn {
			case "SanitizePackageName", "code.SanitizePackageName":
				a, err := pnNameExpr(fset, e.Args[0], dirVar, srcVar)
				return "(sanitize " + a + ")", err
			case "filepath.Base":
				if id, ok := e.Args[0].(*ast.Ident); ok && id.Name == dirVar {
					return "base", nil
				}
				// filepath.Base is idempotent on a base name
				if a, err := pnNameExpr(fset, e.Args[0], dirVar, srcVar); err == nil && a == "base" {
					return "base", nil
				}
			}
		}
	case *ast.SelectorExpr:
		if srcVar != "" && trSel(e) == srcVar+".Name.Name" {
			return "clause", nil
		}
	}
	return "", fmt.Errorf("NameForDir: cannot translate the returned expression `%s`", pnSrc(fset, e))
}

func pnErrGuardReturn(s ast.Stmt) (ast.Expr, bool) {
	is, ok := s.(*ast.IfStmt)
	if !ok || is.Init != nil || is.Else != nil || len(is.Body.List) != 1 {
		return nil, false
	}
	be, ok := is.Cond.(*ast.BinaryExpr)
	if !ok || be.Op != token.NEQ || trSel(be.X) != "err" || trSel(be.Y) != "nil" {
		return nil, false
	}
	ret, ok := is.Body.List[0].(*ast.ReturnStmt)
	if !ok || len(ret.Results) != 1 {
		return nil, false
	}
	return ret.Results[0], true
}

func pnAssignCall(s ast.Stmt, fn string) bool {
	as, ok := s.(*ast.AssignStmt)
	if !ok || len(as.Rhs) != 1 {
		return false
	}
	call, ok := as.Rhs[0].(*ast.CallExpr)
	return ok && trSel(call.Fun) == fn
}

// the guard of SanitizePackageName over the atoms isBlank / isKeyword / startsWithDigit / isEmpty
func pnGuard(fset *token.FileSet, e ast.Expr, v string) (string, error) {
	isIdx0 := func(x ast.Expr) bool {
		ix, ok := x.(*ast.IndexExpr)
		if !ok || trSel(ix.X) != v {
			return false
		}
		l, ok := ix.Index.(*ast.BasicLit)
		return ok && l.Value == "0"
	}
	lit := func(x ast.Expr) (string, bool) {
		l, ok := x.(*ast.BasicLit)
		if !ok {
			return "", false
		}
		return l.Value, true
	}
	switch e := e.(type) {
	case *ast.ParenExpr:
		return pnGuard(fset, e.X, v)
	case *ast.UnaryExpr:
		if e.Op == token.NOT {
			s, err := pnGuard(fset, e.X, v)
			return "(!" + s + ")", err
		}
	case *ast.Ident:
		if e.Name == "true" || e.Name == "false" {
			return e.Name, nil
		}
	case *ast.CallExpr:
		if trSel(e.Fun) == "token.IsKeyword" && len(e.Args) == 1 && trSel(e.Args[0]) == v {
			return "isKeyword", nil
		}
	case *ast.BinaryExpr:
		switch e.Op {
		case token.LAND:
			// exactly `name[0] >= '0' && name[0] <= '9'`
			l, lok := e.X.(*ast.BinaryExpr)
			r, rok := e.Y.(*ast.BinaryExpr)
			if lok && rok && l.Op == token.GEQ && r.Op == token.LEQ && isIdx0(l.X) && isIdx0(r.X) {
				lo, _ := lit(l.Y)
				hi, _ := lit(r.Y)
				if lo == "'0'" && hi == "'9'" {
					return "startsWithDigit", nil
				}
			}
			a, err := pnGuard(fset, e.X, v)
			if err != nil {
				return "", err
			}
			b, err := pnGuard(fset, e.Y, v)
			return "(" + a + " && " + b + ")", err
		case token.LOR:
			a, err := pnGuard(fset, e.X, v)
			if err != nil {
				return "", err
			}
			b, err := pnGuard(fset, e.Y, v)
			return "(" + a + " || " + b + ")", err
		case token.EQL, token.NEQ:
			if trSel(e.X) == v {
				if l, ok := lit(e.Y); ok {
					atom := ""
					switch l {
					case `"_"`:
						atom = "isBlank"
					case `""`:
						atom = "isEmpty"
					}
					if atom != "" {
						if e.Op == token.NEQ {
							return "(!" + atom + ")", nil
						}
						return atom, nil
					}
				}
			}
		}
	}
	return "", fmt.Errorf("SanitizePackageName: cannot translate the condition `%s`", pnSrc(fset, e))
}

// `"_" + name` / `name + "_"` / `name` -> Lean list expression over `name`
func pnConcat(fset *token.FileSet, e ast.Expr, v string) (string, error) {
	switch e := e.(type) {
	case *ast.ParenExpr:
		return pnConcat(fset, e.X, v)
	case *ast.Ident:
		if e.Name == v {
			return "name", nil
		}
	case *ast.BasicLit:
		if e.Kind == token.STRING {
			s, err := strconv.Unquote(e.Value)
			if err == nil {
				return pnCodePoints(s), nil
			}
		}
	case *ast.BinaryExpr:
		if e.Op == token.ADD {
			a, err := pnConcat(fset, e.X, v)
			if err != nil {
				return "", err
			}
			b, err := pnConcat(fset, e.Y, v)
			return "(" + a + " ++ " + b + ")", err
		}
	}
	return "", fmt.Errorf("SanitizePackageName: cannot translate the assigned expression `%s`", pnSrc(fset, e))
}

func extractPkgNameRules(repo string) (string, error) {
	fset := token.NewFileSet()
	// ------------------------------------------------------------ NameForDir
	imf, err := parser.ParseFile(fset, filepath.Join(repo, "internal", "code", "imports.go"), nil, 0)
	if err != nil {
		return "", err
	}
	nfd := trMethod(imf, "", "NameForDir")
	shapeErr := fmt.Errorf("internal/code/imports.go: NameForDir no longer has the shape Abs / error return / ReadDir / error return / [fset] / range over files with a `.go` suffix filter and a package-clause return / final return")
	if nfd == nil || nfd.Type.Params == nil || len(nfd.Type.Params.List) != 1 || len(nfd.Type.Params.List[0].Names) != 1 {
		return "", shapeErr
	}
	dirVar := nfd.Type.Params.List[0].Names[0].Name
	var stmts []ast.Stmt
	for _, s := range nfd.Body.List {
		// `fset := token.NewFileSet()` carries no decision
		if pnAssignCall(s, "token.NewFileSet") {
			continue
		}
		stmts = append(stmts, s)
	}
	if len(stmts) != 6 || !pnAssignCall(stmts[0], "filepath.Abs") || !pnAssignCall(stmts[2], "os.ReadDir") {
		return "", shapeErr
	}
	e1, ok1 := pnErrGuardReturn(stmts[1])
	e2, ok2 := pnErrGuardReturn(stmts[3])
	loop, ok3 := stmts[4].(*ast.RangeStmt)
	last, ok4 := stmts[5].(*ast.ReturnStmt)
	if !ok1 || !ok2 || !ok3 || !ok4 || len(last.Results) != 1 {
		return "", shapeErr
	}
	// the suffix filter
	var suffix string
	lowered := false
	var e3 ast.Expr
	srcVar := ""
	returnsInLoop := 0
	ast.Inspect(loop.Body, func(n ast.Node) bool {
		if _, ok := n.(*ast.ReturnStmt); ok {
			returnsInLoop++
		}
		return true
	})
	for _, s := range loop.Body.List {
		is, ok := s.(*ast.IfStmt)
		if !ok {
			continue
		}
		if un, ok := is.Cond.(*ast.UnaryExpr); ok && un.Op == token.NOT && is.Init == nil {
			call, ok := un.X.(*ast.CallExpr)
			if ok && trSel(call.Fun) == "strings.HasSuffix" && len(call.Args) == 2 && len(is.Body.List) == 1 {
				if br, ok := is.Body.List[0].(*ast.BranchStmt); ok && br.Tok == token.CONTINUE {
					if l, ok := call.Args[1].(*ast.BasicLit); ok {
						suffix, _ = strconv.Unquote(l.Value)
					}
					if c2, ok := call.Args[0].(*ast.CallExpr); ok && trSel(c2.Fun) == "strings.ToLower" {
						lowered = true
					}
				}
			}
			continue
		}
		// if src, err := parser.ParseFile(…, parser.PackageClauseOnly); err == nil { return E3 }
		if as, ok := is.Init.(*ast.AssignStmt); ok && len(as.Lhs) == 2 && len(as.Rhs) == 1 {
			call, ok := as.Rhs[0].(*ast.CallExpr)
			be, ok2 := is.Cond.(*ast.BinaryExpr)
			if ok && ok2 && trSel(call.Fun) == "parser.ParseFile" && be.Op == token.EQL && trSel(be.X) == "err" && trSel(be.Y) == "nil" &&
				len(is.Body.List) == 1 && is.Else == nil {
				if ret, ok := is.Body.List[0].(*ast.ReturnStmt); ok && len(ret.Results) == 1 {
					e3 = ret.Results[0]
					srcVar = trSel(as.Lhs[0])
				}
			}
		}
	}
	if suffix == "" || e3 == nil || returnsInLoop != 1 {
		return "", shapeErr
	}
	x1, err := pnNameExpr(fset, e1, dirVar, "")
	if err != nil {
		return "", err
	}
	x2, err := pnNameExpr(fset, e2, dirVar, "")
	if err != nil {
		return "", err
	}
	x3, err := pnNameExpr(fset, e3, dirVar, srcVar)
	if err != nil {
		return "", err
	}
	x4, err := pnNameExpr(fset, last.Results[0], dirVar, "")
	if err != nil {
		return "", err
	}
	// ------------------------------------------------------------ SanitizePackageName
	uf, err := parser.ParseFile(fset, filepath.Join(repo, "internal", "code", "util.go"), nil, 0)
	if err != nil {
		return "", err
	}
	regex := ""
	for _, d := range uf.Decls {
		gd, ok := d.(*ast.GenDecl)
		if !ok || gd.Tok != token.VAR {
			continue
		}
		for _, sp := range gd.Specs {
			vs := sp.(*ast.ValueSpec)
			if len(vs.Names) == 1 && vs.Names[0].Name == "invalidPackageNameChar" && len(vs.Values) == 1 {
				if call, ok := vs.Values[0].(*ast.CallExpr); ok && trSel(call.Fun) == "regexp.MustCompile" && len(call.Args) == 1 {
					if l, ok := call.Args[0].(*ast.BasicLit); ok {
						regex, _ = strconv.Unquote(l.Value)
					}
				}
			}
		}
	}
	if regex == "" {
		return "", fmt.Errorf("internal/code/util.go: var invalidPackageNameChar = regexp.MustCompile(<literal>) not found")
	}
	spn := trMethod(uf, "", "SanitizePackageName")
	spnErr := fmt.Errorf("internal/code/util.go: SanitizePackageName is neither `return invalidPackageNameChar.ReplaceAllLiteralString(filepath.Base(pkg), <lit>)` nor `name := <that>; if <cond> { name = <concat> }; return name`")
	if spn == nil || len(spn.Type.Params.List) != 1 || len(spn.Type.Params.List[0].Names) != 1 {
		return "", spnErr
	}
	pkgVar := spn.Type.Params.List[0].Names[0].Name
	replOf := func(e ast.Expr) (string, bool) {
		call, ok := e.(*ast.CallExpr)
		if !ok || trSel(call.Fun) != "invalidPackageNameChar.ReplaceAllLiteralString" || len(call.Args) != 2 {
			return "", false
		}
		in, ok := call.Args[0].(*ast.CallExpr)
		if !ok || trSel(in.Fun) != "filepath.Base" || len(in.Args) != 1 || trSel(in.Args[0]) != pkgVar {
			return "", false
		}
		l, ok := call.Args[1].(*ast.BasicLit)
		if !ok {
			return "", false
		}
		s, err := strconv.Unquote(l.Value)
		return s, err == nil
	}
	repl, guard, fix := "", "false", "name"
	switch len(spn.Body.List) {
	case 1:
		ret, ok := spn.Body.List[0].(*ast.ReturnStmt)
		if !ok || len(ret.Results) != 1 {
			return "", spnErr
		}
		r, ok := replOf(ret.Results[0])
		if !ok {
			return "", spnErr
		}
		repl = r
	case 3:
		as, ok := spn.Body.List[0].(*ast.AssignStmt)
		is, ok2 := spn.Body.List[1].(*ast.IfStmt)
		ret, ok3 := spn.Body.List[2].(*ast.ReturnStmt)
		if !ok || !ok2 || !ok3 || as.Tok != token.DEFINE || len(as.Lhs) != 1 || len(as.Rhs) != 1 || is.Init != nil || is.Else != nil ||
			len(is.Body.List) != 1 || len(ret.Results) != 1 {
			return "", spnErr
		}
		v := trSel(as.Lhs[0])
		r, ok := replOf(as.Rhs[0])
		if !ok || trSel(ret.Results[0]) != v {
			return "", spnErr
		}
		repl = r
		set, ok := is.Body.List[0].(*ast.AssignStmt)
		if !ok || set.Tok != token.ASSIGN || len(set.Lhs) != 1 || trSel(set.Lhs[0]) != v || len(set.Rhs) != 1 {
			return "", spnErr
		}
		if guard, err = pnGuard(fset, is.Cond, v); err != nil {
			return "", err
		}
		if fix, err = pnConcat(fset, set.Rhs[0], v); err != nil {
			return "", err
		}
	default:
		return "", spnErr
	}
	// ------------------------------------------------------------ the three callers
	type caller struct{ section, file, recv string }
	var derived []string
	for _, c := range []caller{{"exec", "exec.go", "*ExecConfig"}, {"model", "package.go", "*PackageConfig"}, {"resolver", "resolver.go", "*ResolverConfig"}} {
		f, err := parser.ParseFile(fset, filepath.Join(repo, "codegen", "config", c.file), nil, 0)
		if err != nil {
			return "", err
		}
		chk := trMethod(f, c.recv, "Check")
		if chk == nil {
			return "", fmt.Errorf("codegen/config/%s: (%s).Check not found", c.file, c.recv)
		}
		rv := chk.Recv.List[0].Names[0].Name
		var found []string
		ast.Inspect(chk.Body, func(n ast.Node) bool {
			as, ok := n.(*ast.AssignStmt)
			if !ok || len(as.Lhs) != 1 || len(as.Rhs) != 1 || trSel(as.Lhs[0]) != rv+".Package" {
				return true
			}
			src := pnSrc(fset, as.Rhs[0])
			switch src {
			case "code.NameForDir(" + rv + ".Dir())":
				found = append(found, "nameForDir(Dir)")
			case "filepath.Base(" + rv + ".Dir())":
				found = append(found, "base(Dir)")
			case "code.SanitizePackageName(filepath.Base(" + rv + ".Dir()))", "code.SanitizePackageName(" + rv + ".Dir())":
				found = append(found, "sanitize(base(Dir))")
			default:
				found = append(found, "other:"+src)
			}
			return true
		})
		if len(found) != 1 {
			return "", fmt.Errorf("codegen/config/%s: (%s).Check assigns %s.Package %d times (expected once, under `%s.Package == \"\"`)", c.file, c.recv, rv, len(found), rv)
		}
		derived = append(derived, fmt.Sprintf("(%s, %s)", pnLeanStr(c.section), pnLeanStr(found[0])))
	}

	var b strings.Builder
	b.WriteString("/-! How a generated file's package name is derived when `package:` is omitted: `code.NameForDir`\n(internal/code/imports.go), `code.SanitizePackageName` (internal/code/util.go) and the `Check()` methods of the exec /\nmodel / resolver sections (codegen/config), translated from the source. Text = list of code points. -/\nnamespace GqlgenVerif.Gen.PkgNameRules\nset_option linter.unusedVariables false\n\n")
	ret := func(name, doc, x string) {
		fmt.Fprintf(&b, "/-- NameForDir: %s -/\ndef %s (sanitize : List Nat → List Nat) (base clause : List Nat) : List Nat := %s\n\n", doc, name, x)
	}
	ret("retAbsError", "value returned when filepath.Abs fails (`base` = filepath.Base(dir))", x1)
	ret("retReadDirError", "value returned when the directory cannot be read (does not exist yet)", x2)
	ret("retPackageClause", "value returned for the first `.go` file whose package clause parses (`clause` = its name)", x3)
	ret("retNoGoFile", "value returned when the directory exists and holds no parsable Go file", x4)
	fmt.Fprintf(&b, "/-- the file-name suffix NameForDir filters on, and whether the name is lowered first -/\ndef goSuffix : List Nat := %s\ndef suffixLowered : Bool := %v\n\n", pnCodePoints(suffix), lowered)
	fmt.Fprintf(&b, "/-- `invalidPackageNameChar` and the literal it is replaced with -/\ndef invalidCharRegex : String := %s\ndef replacement : List Nat := %s\n\n", pnLeanStr(regex), pnCodePoints(repl))
	fmt.Fprintf(&b, "/-- SanitizePackageName: the condition under which the replaced name is repaired, over\n`name == \"_\"`, `token.IsKeyword(name)`, `name[0] >= '0' && name[0] <= '9'`, `name == \"\"` -/\ndef sanitizeGuard (isBlank isKeyword startsWithDigit isEmpty : Bool) : Bool := %s\n\n", guard)
	fmt.Fprintf(&b, "/-- SanitizePackageName: the repaired name -/\ndef guardFix (name : List Nat) : List Nat := %s\n\n", fix)
	fmt.Fprintf(&b, "/-- what each section's Check() assigns to an empty `package:` -/\ndef derivedPackage : List (String × String) := [%s]\n\nend GqlgenVerif.Gen.PkgNameRules\n", strings.Join(derived, ", "))
	return b.String(), nil
}
