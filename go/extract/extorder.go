package main

import (
	"bytes"
	"fmt"
	"go/ast"
	"go/parser"
	"go/printer"
	"go/token"
	"path/filepath"
	"strings"
)

// ExtOrder (C16): how the value of OperationContext.DisableIntrospection comes about for one request —
//
//	graphql/executor/extensions.go  processExtensions: for every `if p, ok := p.(graphql.<I>); ok { … }` the
//	    field of `extensions` it fills, whether it APPENDS (`e.f = append(e.f, p)`) or WRAPS
//	    (`previous := e.f; e.f = func(…) { return p.Intercept…(ctx, func(…) { return previous(ctx, next) }) }`),
//	    and the direction of the loop it stands in (`for i := len(exts) - 1; i >= 0; i--` = backward,
//	    `for _, p := range exts` / `for i := 0; i < len(exts); i++` = forward)
//	graphql/executor/executor.go    CreateOperationContext: the literal `DisableIntrospection: <true|false>` of the
//	    OperationContext composite literal; the loops over e.ext.<field> in source order
//	graphql/handler/extension/introspection.go  Introspection.MutateOperationContext: the constants assigned to
//	    opCtx.DisableIntrospection
//
// as `GqlgenVerif.IntroGate.Cfg.Facts`. Props/C16Cfg.lean proves over these facts that the flag is the result
// of running parameter mutators, context mutators and operation middleware in registration order. Statements the
// translator has no reading for are errors (broken tie).
func init() { extractors["ExtOrder"] = extractExtOrder }

func eoSrc(fset *token.FileSet, n ast.Node) string {
	if n == nil {
		return ""
	}
	var b bytes.Buffer
	_ = printer.Fprint(&b, fset, n)
	return strings.Join(strings.Fields(b.String()), " ")
}

func eoFunc(f *ast.File, recv, name string) *ast.FuncDecl {
	for _, d := range f.Decls {
		fd, ok := d.(*ast.FuncDecl)
		if !ok || fd.Name.Name != name {
			continue
		}
		if recv == "" && fd.Recv == nil {
			return fd
		}
		if recv != "" && fd.Recv != nil && len(fd.Recv.List) == 1 {
			t := fd.Recv.List[0].Type
			if s, ok := t.(*ast.StarExpr); ok {
				t = s.X
			}
			if id, ok := t.(*ast.Ident); ok && id.Name == recv {
				return fd
			}
		}
	}
	return nil
}

type eoSlot struct{ iface, field, how, dir string }

// eoLoopDir: the direction a loop visits `over` in, and the statements of its body
func eoLoopDir(fset *token.FileSet, s ast.Stmt, over string) (dir string, body []ast.Stmt, ok bool, err error) {
	switch st := s.(type) {
	case *ast.ForStmt:
		hdr := eoSrc(fset, st.Init) + "; " + eoSrc(fset, st.Cond) + "; " + eoSrc(fset, st.Post)
		switch hdr {
		case "i := len(" + over + ") - 1; i >= 0; i--":
			return ".backward", st.Body.List, true, nil
		case "i := 0; i < len(" + over + "); i++":
			return ".forward", st.Body.List, true, nil
		}
		return "", nil, true, fmt.Errorf("unknown loop header %q", hdr)
	case *ast.RangeStmt:
		if eoSrc(fset, st.X) != over {
			return "", nil, true, fmt.Errorf("range over %q, expected %q", eoSrc(fset, st.X), over)
		}
		return ".forward", st.Body.List, true, nil
	}
	return "", nil, false, nil
}

func eoProcessExtensions(fset *token.FileSet, fd *ast.FuncDecl) ([]eoSlot, error) {
	var slots []eoSlot
	for _, s := range fd.Body.List {
		dir, body, isLoop, err := eoLoopDir(fset, s, "exts")
		if err != nil {
			return nil, fmt.Errorf("processExtensions: %v", err)
		}
		if !isLoop {
			switch st := s.(type) {
			case *ast.AssignStmt:
				if eoSrc(fset, st.Lhs[0]) == "e" {
					continue // e := extensions{ identity middleware … }
				}
			case *ast.ReturnStmt:
				if eoSrc(fset, st) == "return e" {
					continue
				}
			}
			return nil, fmt.Errorf("processExtensions: unexpected statement %q", eoSrc(fset, s))
		}
		for _, b := range body {
			if eoSrc(fset, b) == "p := exts[i]" {
				continue
			}
			is, ok := b.(*ast.IfStmt)
			if !ok || is.Init == nil || is.Else != nil || eoSrc(fset, is.Cond) != "ok" {
				return nil, fmt.Errorf("processExtensions: unexpected statement in loop %q", eoSrc(fset, b))
			}
			ini := eoSrc(fset, is.Init)
			if !strings.HasPrefix(ini, "p, ok := p.(graphql.") || !strings.HasSuffix(ini, ")") {
				return nil, fmt.Errorf("processExtensions: unexpected type assertion %q", ini)
			}
			iface := strings.TrimSuffix(strings.TrimPrefix(ini, "p, ok := p.(graphql."), ")")
			switch len(is.Body.List) {
			case 1:
				// e.f = append(e.f, p)
				as, ok := is.Body.List[0].(*ast.AssignStmt)
				if !ok || len(as.Lhs) != 1 || !strings.HasPrefix(eoSrc(fset, as.Lhs[0]), "e.") {
					return nil, fmt.Errorf("processExtensions: %s: unexpected body %q", iface, eoSrc(fset, is.Body))
				}
				field := strings.TrimPrefix(eoSrc(fset, as.Lhs[0]), "e.")
				if eoSrc(fset, as.Rhs[0]) != "append(e."+field+", p)" {
					return nil, fmt.Errorf("processExtensions: %s: %q is not an append of p", iface, eoSrc(fset, as))
				}
				slots = append(slots, eoSlot{iface, field, ".append", dir})
			case 2:
				// previous := e.f; e.f = func(ctx, next) { return p.M(ctx, func(ctx) { return previous(ctx, next) }) }
				pa, ok1 := is.Body.List[0].(*ast.AssignStmt)
				as, ok2 := is.Body.List[1].(*ast.AssignStmt)
				if !ok1 || !ok2 || eoSrc(fset, pa.Lhs[0]) != "previous" || !strings.HasPrefix(eoSrc(fset, pa.Rhs[0]), "e.") ||
					eoSrc(fset, as.Lhs[0]) != eoSrc(fset, pa.Rhs[0]) {
					return nil, fmt.Errorf("processExtensions: %s: unexpected body %q", iface, eoSrc(fset, is.Body))
				}
				field := strings.TrimPrefix(eoSrc(fset, pa.Rhs[0]), "e.")
				fl, ok := as.Rhs[0].(*ast.FuncLit)
				if !ok || len(fl.Body.List) != 1 {
					return nil, fmt.Errorf("processExtensions: %s: not a single-return closure", iface)
				}
				ret, ok := fl.Body.List[0].(*ast.ReturnStmt)
				if !ok || len(ret.Results) != 1 {
					return nil, fmt.Errorf("processExtensions: %s: not a single-return closure", iface)
				}
				call, ok := ret.Results[0].(*ast.CallExpr)
				if !ok || !strings.HasPrefix(eoSrc(fset, call.Fun), "p.Intercept") || len(call.Args) != 2 || eoSrc(fset, call.Args[0]) != "ctx" {
					return nil, fmt.Errorf("processExtensions: %s: the closure does not return p.Intercept…(ctx, …)", iface)
				}
				in, ok := call.Args[1].(*ast.FuncLit)
				if !ok || len(in.Body.List) != 1 || eoSrc(fset, in.Body.List[0]) != "return previous(ctx, next)" {
					return nil, fmt.Errorf("processExtensions: %s: the inner closure is not `return previous(ctx, next)`", iface)
				}
				slots = append(slots, eoSlot{iface, field, ".wrap", dir})
			default:
				return nil, fmt.Errorf("processExtensions: %s: unexpected body %q", iface, eoSrc(fset, is.Body))
			}
		}
	}
	if len(slots) == 0 {
		return nil, fmt.Errorf("processExtensions: no hook slot recognised")
	}
	return slots, nil
}

func eoCreate(fset *token.FileSet, fd *ast.FuncDecl) (initial string, loops []string, err error) {
	initial = ""
	nlit := 0
	ast.Inspect(fd.Body, func(n ast.Node) bool {
		cl, ok := n.(*ast.CompositeLit)
		if !ok || !strings.HasSuffix(eoSrc(fset, cl.Type), "graphql.OperationContext") {
			return true
		}
		nlit++
		initial = "false" // the Go zero value when the key is absent
		for _, el := range cl.Elts {
			kv, ok := el.(*ast.KeyValueExpr)
			if ok && eoSrc(fset, kv.Key) == "DisableIntrospection" {
				initial = eoSrc(fset, kv.Value)
			}
		}
		return true
	})
	if nlit != 1 {
		return "", nil, fmt.Errorf("CreateOperationContext: %d graphql.OperationContext literals, expected 1", nlit)
	}
	if initial != "true" && initial != "false" {
		return "", nil, fmt.Errorf("CreateOperationContext: DisableIntrospection starts as %q (not a literal)", initial)
	}
	// any other write to the flag in this function is something the model does not have
	bad := ""
	ast.Inspect(fd.Body, func(n ast.Node) bool {
		if as, ok := n.(*ast.AssignStmt); ok {
			for _, l := range as.Lhs {
				if strings.HasSuffix(eoSrc(fset, l), ".DisableIntrospection") {
					bad = eoSrc(fset, as)
				}
			}
		}
		return true
	})
	if bad != "" {
		return "", nil, fmt.Errorf("CreateOperationContext: unexpected assignment %q", bad)
	}
	for _, s := range fd.Body.List {
		var over string
		switch st := s.(type) {
		case *ast.RangeStmt:
			over = eoSrc(fset, st.X)
		case *ast.ForStmt:
			src := eoSrc(fset, st.Init) + ";" + eoSrc(fset, st.Cond)
			if i := strings.Index(src, "len(e.ext."); i >= 0 {
				over = src[i+4 : i+strings.Index(src[i:], ")")]
			} else {
				return "", nil, fmt.Errorf("CreateOperationContext: unexpected loop %q", src)
			}
		default:
			continue
		}
		if !strings.HasPrefix(over, "e.ext.") {
			return "", nil, fmt.Errorf("CreateOperationContext: loop over %q", over)
		}
		dir, body, _, err := eoLoopDir(fset, s, over)
		if err != nil {
			return "", nil, fmt.Errorf("CreateOperationContext: %v", err)
		}
		// the body: if err := p.Mutate…(ctx, …); err != nil { return opCtx, gqlerror.List{err} }
		if len(body) == 0 {
			return "", nil, fmt.Errorf("CreateOperationContext: empty loop over %s", over)
		}
		var ifs *ast.IfStmt
		for _, b := range body {
			if is, ok := b.(*ast.IfStmt); ok && ifs == nil {
				ifs = is
				continue
			}
			if t := eoSrc(fset, b); t != "p := "+over+"[i]" {
				return "", nil, fmt.Errorf("CreateOperationContext: loop over %s: unexpected statement %q", over, t)
			}
		}
		if ifs == nil || !strings.HasPrefix(eoSrc(fset, ifs.Init), "err := p.Mutate") || eoSrc(fset, ifs.Cond) != "err != nil" ||
			len(ifs.Body.List) != 1 || eoSrc(fset, ifs.Body.List[0]) != "return opCtx, gqlerror.List{err}" {
			return "", nil, fmt.Errorf("CreateOperationContext: loop over %s: body is not `if err := p.Mutate…; err != nil { return opCtx, gqlerror.List{err} }`", over)
		}
		loops = append(loops, fmt.Sprintf("(%q, %s)", strings.TrimPrefix(over, "e.ext."), dir))
	}
	return initial, loops, nil
}

func eoIntrospection(fset *token.FileSet, fd *ast.FuncDecl) ([]string, error) {
	var sets []string
	for _, s := range fd.Body.List {
		switch st := s.(type) {
		case *ast.AssignStmt:
			if len(st.Lhs) == 1 && strings.HasSuffix(eoSrc(fset, st.Lhs[0]), ".DisableIntrospection") && st.Tok == token.ASSIGN {
				v := eoSrc(fset, st.Rhs[0])
				if v == "true" || v == "false" {
					sets = append(sets, v)
					continue
				}
			}
		case *ast.ReturnStmt:
			if eoSrc(fset, st) == "return nil" {
				continue
			}
		}
		return nil, fmt.Errorf("extension.Introspection.MutateOperationContext: unexpected statement %q", eoSrc(fset, s))
	}
	return sets, nil
}

func extractExtOrder(repo string) (string, error) {
	fset := token.NewFileSet()
	parse := func(rel string) (*ast.File, error) {
		return parser.ParseFile(fset, filepath.Join(repo, rel), nil, 0)
	}
	ext, err := parse("graphql/executor/extensions.go")
	if err != nil {
		return "", err
	}
	exe, err := parse("graphql/executor/executor.go")
	if err != nil {
		return "", err
	}
	intro, err := parse("graphql/handler/extension/introspection.go")
	if err != nil {
		return "", err
	}
	pe, create, mut := eoFunc(ext, "", "processExtensions"), eoFunc(exe, "Executor", "CreateOperationContext"), eoFunc(intro, "Introspection", "MutateOperationContext")
	if pe == nil || create == nil || mut == nil {
		return "", fmt.Errorf("processExtensions / (*Executor).CreateOperationContext / (Introspection).MutateOperationContext not found")
	}
	// Use must keep the registration order: e.extensions = append(e.extensions, extension); e.ext = processExtensions(e.extensions)
	use := eoFunc(ext, "Executor", "Use")
	if use == nil {
		return "", fmt.Errorf("(*Executor).Use not found")
	}
	us := eoSrc(fset, use.Body)
	if !strings.Contains(us, "e.extensions = append(e.extensions, extension) e.ext = processExtensions(e.extensions)") {
		return "", fmt.Errorf("(*Executor).Use does not append the extension and re-run processExtensions: %q", us)
	}
	slots, err := eoProcessExtensions(fset, pe)
	if err != nil {
		return "", err
	}
	initial, loops, err := eoCreate(fset, create)
	if err != nil {
		return "", err
	}
	sets, err := eoIntrospection(fset, mut)
	if err != nil {
		return "", err
	}
	var b strings.Builder
	b.WriteString("import GqlgenVerif.Model.IntroGateCfg\nnamespace GqlgenVerif.Gen.ExtOrder\nopen GqlgenVerif.IntroGate.Cfg\n\n")
	b.WriteString("/-- graphql/executor/extensions.go processExtensions, executor.go CreateOperationContext,\n    graphql/handler/extension/introspection.go -/\n")
	b.WriteString("def facts : Facts :=\n  { slots :=\n      [")
	for i, s := range slots {
		if i > 0 {
			b.WriteString(",\n       ")
		}
		fmt.Fprintf(&b, "⟨%q, %q, %s, %s⟩", s.iface, s.field, s.how, s.dir)
	}
	b.WriteString("],\n")
	fmt.Fprintf(&b, "    initialDisable := %s,\n", initial)
	fmt.Fprintf(&b, "    createLoops := [%s],\n", strings.Join(loops, ", "))
	fmt.Fprintf(&b, "    introspectionExt := [%s] }\n\n", strings.Join(sets, ", "))
	b.WriteString("end GqlgenVerif.Gen.ExtOrder\n")
	return b.String(), nil
}
