package main

import (
	"fmt"
	"go/ast"
	"go/parser"
	"go/token"
	"path/filepath"
	"strings"
)

// ParseGuards (C03): two guards of executor.parseQuery the pipeline model relies on, in the vocabulary
// of lean/GqlgenVerif/Model/PipelineGuards.lean.
//
// 1. The key of the query cache is the query text (KeyFact / KeyExpr):
//
//	parseQuery(ctx, stats, query): e.queryCache.Get(ctx, query), parser.ParseQueryWithTokenLimit(&ast.Source{Input: query}, …),
//	e.queryCache.Add(ctx, query, doc) all name the parameter itself, which is used nowhere else and never assigned;
//	MapCache / NoCache (graphql/cache.go) and LRU (graphql/handler/lru/lru.go), methods Get and Add: the key
//	parameter occurs exactly once, as the index of the receiver map (`m[key]`) or as the first argument of a
//	method of a field of the receiver (`l.lru.Get(key)`) → .param; not at all → .unused; anything else
//	(`normalize(key)`, `key = …`, a second use) → .other "<source>".
//
// 2. Every error of the parser is a refusal (ErrBranch): the statement after
// `doc, err := parser.ParseQueryWithTokenLimit(…, e.parserTokenLimit)` is `if err != nil { … }`;
//
//	the body ends in `return nil, …`                                                      → .always
//	the only `return nil, …` sits inside `if ok { … }` after `gqlErr, ok := err.(*gqlerror.Error)` → .onlyGqlError
//	anything else                                                                         → .other "<source>"
//
// plus the wiring of the limit (setter bodies, default) as source text.
func init() { extractors["ParseGuards"] = extractParseGuards }

func pgFindMethod(f *ast.File, recv, name string) *ast.FuncDecl {
	for _, d := range f.Decls {
		fd, ok := d.(*ast.FuncDecl)
		if !ok || fd.Name.Name != name || fd.Recv == nil || len(fd.Recv.List) != 1 {
			continue
		}
		t := fd.Recv.List[0].Type
		if s, ok := t.(*ast.StarExpr); ok {
			t = s.X
		}
		switch x := t.(type) {
		case *ast.IndexExpr:
			t = x.X
		case *ast.IndexListExpr:
			t = x.X
		}
		if id, ok := t.(*ast.Ident); ok && id.Name == recv {
			return fd
		}
	}
	return nil
}

// pgParams: the flattened parameter names of a function
func pgParams(fd *ast.FuncDecl) []string {
	var l []string
	for _, p := range fd.Type.Params.List {
		if len(p.Names) == 0 {
			l = append(l, "_")
		}
		for _, n := range p.Names {
			l = append(l, n.Name)
		}
	}
	return l
}

func pgRootIdent(e ast.Expr) string {
	for {
		switch x := e.(type) {
		case *ast.SelectorExpr:
			e = x.X
		case *ast.Ident:
			return x.Name
		default:
			return ""
		}
	}
}

// pgCacheKey: how a cache method uses its key parameter
func pgCacheKey(fset *token.FileSet, fd *ast.FuncDecl) string {
	ps := pgParams(fd)
	if len(ps) < 2 {
		return ".other " + psLeanStr("parameters: "+strings.Join(ps, ", "))
	}
	key := ps[1]
	recv := ""
	if len(fd.Recv.List[0].Names) == 1 {
		recv = fd.Recv.List[0].Names[0].Name
	}
	if key == "_" {
		return ".unused"
	}
	good, bad := 0, []string{}
	var stack []ast.Node
	ast.Inspect(fd.Body, func(n ast.Node) bool {
		if n == nil {
			stack = stack[:len(stack)-1]
			return true
		}
		stack = append(stack, n)
		id, ok := n.(*ast.Ident)
		if !ok || id.Name != key {
			return true
		}
		parent := stack[len(stack)-2]
		switch p := parent.(type) {
		case *ast.IndexExpr:
			if p.Index == n && recv != "" && psSrc(fset, p.X) == recv {
				good++
				return true
			}
		case *ast.CallExpr:
			if sel, ok := p.Fun.(*ast.SelectorExpr); ok && len(p.Args) > 0 && p.Args[0] == n {
				if _, deep := sel.X.(*ast.SelectorExpr); deep && recv != "" && pgRootIdent(sel.X) == recv {
					good++
					return true
				}
			}
		}
		bad = append(bad, psSrc(fset, parent))
		return true
	})
	switch {
	case len(bad) > 0:
		return ".other " + psLeanStr(strings.Join(bad, " ; "))
	case good == 0:
		return ".unused"
	case good == 1:
		return ".param"
	}
	return ".other " + psLeanStr(fmt.Sprintf("%d uses of %s", good, key))
}

func pgReturnsNilFirst(s ast.Stmt) bool {
	r, ok := s.(*ast.ReturnStmt)
	if !ok || len(r.Results) == 0 {
		return false
	}
	id, ok := r.Results[0].(*ast.Ident)
	return ok && id.Name == "nil"
}

func extractParseGuards(repo string) (string, error) {
	fset := token.NewFileSet()
	parse := func(rel string) (*ast.File, error) {
		return parser.ParseFile(fset, filepath.Join(repo, rel), nil, 0)
	}
	ef, err := parse("graphql/executor/executor.go")
	if err != nil {
		return "", err
	}
	pq := psFindFunc(ef, "parseQuery")
	if pq == nil || pq.Body == nil {
		return "", fmt.Errorf("executor.parseQuery not found")
	}
	ps := pgParams(pq)
	if len(ps) != 3 {
		return "", fmt.Errorf("parseQuery: expected (ctx, stats, query), found (%s)", strings.Join(ps, ", "))
	}
	query := ps[2]

	type fact struct{ recv, method, key string }
	var facts []fact
	// every use of the text parameter in parseQuery
	uses, assigned := 0, []string{}
	ast.Inspect(pq.Body, func(n ast.Node) bool {
		switch x := n.(type) {
		case *ast.Ident:
			if x.Name == query {
				uses++
			}
		case *ast.AssignStmt:
			for _, l := range x.Lhs {
				if id, ok := l.(*ast.Ident); ok && id.Name == query {
					assigned = append(assigned, psSrc(fset, x))
				}
			}
		case *ast.UnaryExpr:
			if id, ok := x.X.(*ast.Ident); ok && x.Op == token.AND && id.Name == query {
				assigned = append(assigned, psSrc(fset, x))
			}
		}
		return true
	})
	keyOf := func(e ast.Expr) string {
		if id, ok := e.(*ast.Ident); ok && id.Name == query {
			return ".param"
		}
		return ".other " + psLeanStr(psSrc(fset, e))
	}
	found := map[string]string{}
	var parserCall *ast.CallExpr
	ast.Inspect(pq.Body, func(n ast.Node) bool {
		c, ok := n.(*ast.CallExpr)
		if !ok {
			return true
		}
		switch fn := psSrc(fset, c.Fun); fn {
		case "e.queryCache.Get", "e.queryCache.Add":
			k := ".other " + psLeanStr(psSrc(fset, c))
			if len(c.Args) >= 2 {
				k = keyOf(c.Args[1])
			}
			if old, dup := found[fn]; dup && old != k {
				k = ".other " + psLeanStr("several calls of "+fn)
			}
			found[fn] = k
		case "parser.ParseQueryWithTokenLimit", "parser.ParseQuery":
			parserCall = c
			k := ".other " + psLeanStr(psSrc(fset, c))
			if len(c.Args) >= 1 {
				if psSrc(fset, c.Args[0]) == "&ast.Source{Input: "+query+"}" {
					k = ".param"
				} else {
					k = ".other " + psLeanStr(psSrc(fset, c.Args[0]))
				}
			}
			found["parser"] = k
		}
		return true
	})
	for _, m := range []string{"e.queryCache.Get", "parser", "e.queryCache.Add"} {
		if _, ok := found[m]; !ok {
			return "", fmt.Errorf("parseQuery: no call of %s", m)
		}
	}
	if uses != 3 || len(assigned) > 0 {
		found["e.queryCache.Get"] = ".other " + psLeanStr(fmt.Sprintf("%s is used %d times in parseQuery; assigned/addressed: %s", query, uses, strings.Join(assigned, " ; ")))
	}
	facts = append(facts,
		fact{"parseQuery", "queryCache.Get", found["e.queryCache.Get"]},
		fact{"parseQuery", "parser.ParseQueryWithTokenLimit", found["parser"]},
		fact{"parseQuery", "queryCache.Add", found["e.queryCache.Add"]})

	cf, err := parse("graphql/cache.go")
	if err != nil {
		return "", err
	}
	lf, err := parse("graphql/handler/lru/lru.go")
	if err != nil {
		return "", err
	}
	for _, rm := range []struct {
		f    *ast.File
		recv string
	}{{cf, "MapCache"}, {cf, "NoCache"}, {lf, "LRU"}} {
		for _, m := range []string{"Get", "Add"} {
			fd := pgFindMethod(rm.f, rm.recv, m)
			if fd == nil || fd.Body == nil {
				return "", fmt.Errorf("%s.%s not found", rm.recv, m)
			}
			facts = append(facts, fact{rm.recv, m, pgCacheKey(fset, fd)})
		}
	}

	// ---- the error branch after the parser call
	branch := ""
	var limitArg string
	if len(parserCall.Args) >= 2 {
		limitArg = psSrc(fset, parserCall.Args[1])
	}
	for i, st := range pq.Body.List {
		as, ok := st.(*ast.AssignStmt)
		if !ok || len(as.Rhs) != 1 || as.Rhs[0] != ast.Expr(parserCall) {
			continue
		}
		if psSrc(fset, as) != "doc, err := "+psSrc(fset, parserCall) {
			branch = ".other " + psLeanStr(psSrc(fset, as))
			break
		}
		if i+1 >= len(pq.Body.List) {
			branch = ".other \"parser call is the last statement\""
			break
		}
		ifs, ok := pq.Body.List[i+1].(*ast.IfStmt)
		if !ok || psSrc(fset, ifs.Cond) != "err != nil" || ifs.Init != nil || ifs.Else != nil || len(ifs.Body.List) == 0 {
			branch = ".other " + psLeanStr(psSrc(fset, pq.Body.List[i+1]))
			break
		}
		body := ifs.Body.List
		if pgReturnsNilFirst(body[len(body)-1]) {
			branch = ".always"
			// nothing before the final return may leave the body with a document
			for _, b := range body[:len(body)-1] {
				ast.Inspect(b, func(n ast.Node) bool {
					if r, ok := n.(*ast.ReturnStmt); ok && !pgReturnsNilFirst(r) {
						branch = ".other " + psLeanStr(psSrc(fset, r))
					}
					return true
				})
			}
			break
		}
		// the pre-8553b25 shape
		hasAssert := false
		condRet := false
		for _, b := range body {
			if a, ok := b.(*ast.AssignStmt); ok && psSrc(fset, a) == "gqlErr, ok := err.(*gqlerror.Error)" {
				hasAssert = true
			}
			if in, ok := b.(*ast.IfStmt); ok && psSrc(fset, in.Cond) == "ok" && in.Else == nil && len(in.Body.List) > 0 &&
				pgReturnsNilFirst(in.Body.List[len(in.Body.List)-1]) {
				condRet = true
			}
		}
		if hasAssert && condRet {
			branch = ".onlyGqlError"
		} else {
			branch = ".other " + psLeanStr(psSrc(fset, ifs))
		}
		break
	}
	if branch == "" {
		return "", fmt.Errorf("parseQuery: `doc, err := parser.ParseQueryWithTokenLimit(…)` is not a statement of the function body")
	}

	// ---- wiring of the limit
	wiring := [][2]string{{"parserArg", limitArg}}
	if fd := pgFindMethod(ef, "Executor", "SetParserTokenLimit"); fd != nil && fd.Body != nil {
		wiring = append(wiring, [2]string{"Executor.SetParserTokenLimit(" + strings.Join(pgParams(fd), ", ") + ")", psSrc(fset, fd.Body)})
	} else {
		return "", fmt.Errorf("Executor.SetParserTokenLimit not found")
	}
	def := ""
	ast.Inspect(ef, func(n ast.Node) bool {
		switch x := n.(type) {
		case *ast.KeyValueExpr:
			if psSrc(fset, x.Key) == "parserTokenLimit" {
				def = psSrc(fset, x.Value)
			}
		}
		return true
	})
	wiring = append(wiring, [2]string{"New", def})
	for _, d := range ef.Decls {
		gd, ok := d.(*ast.GenDecl)
		if !ok || gd.Tok != token.CONST {
			continue
		}
		for _, sp := range gd.Specs {
			vs := sp.(*ast.ValueSpec)
			for i, n := range vs.Names {
				if n.Name == def && i < len(vs.Values) {
					wiring = append(wiring, [2]string{def, psSrc(fset, vs.Values[i])})
				}
			}
		}
	}
	sf, err := parse("graphql/handler/server.go")
	if err != nil {
		return "", err
	}
	if fd := pgFindMethod(sf, "Server", "SetParserTokenLimit"); fd != nil && fd.Body != nil {
		wiring = append(wiring, [2]string{"Server.SetParserTokenLimit(" + strings.Join(pgParams(fd), ", ") + ")", psSrc(fset, fd.Body)})
	} else {
		return "", fmt.Errorf("Server.SetParserTokenLimit not found")
	}

	var sb strings.Builder
	sb.WriteString("import GqlgenVerif.Model.PipelineGuards\n")
	sb.WriteString("namespace GqlgenVerif.Gen.ParseGuards\nopen GqlgenVerif.Pipeline.Guards\n\n")
	sb.WriteString("/-- what stands where the model has the query text / the cache key -/\ndef keyFacts : List KeyFact :=\n  [")
	for i, f := range facts {
		if i > 0 {
			sb.WriteString(",\n   ")
		}
		fmt.Fprintf(&sb, "⟨%s, %s, %s⟩", psLeanStr(f.recv), psLeanStr(f.method), f.key)
	}
	sb.WriteString("]\n\n/-- graphql/executor/executor.go parseQuery: the `if err != nil` after the parser call -/\n")
	sb.WriteString("def errBranch : ErrBranch := " + branch + "\n\n")
	sb.WriteString("/-- where the token limit comes from -/\ndef limitWiring : List (String × String) :=\n  [")
	for i, w := range wiring {
		if i > 0 {
			sb.WriteString(",\n   ")
		}
		fmt.Fprintf(&sb, "(%s, %s)", psLeanStr(w[0]), psLeanStr(w[1]))
	}
	sb.WriteString("]\n\nend GqlgenVerif.Gen.ParseGuards\n")
	return sb.String(), nil
}
