package main

import (
	"fmt"
	"go/ast"
	"go/parser"
	"go/token"
	"os"
	"path/filepath"
	"strings"
)

// PerSchemaSteps (C18): the passes of codegen.generatePerSchema (codegen/generate.go) that distribute the data over
// the per-schema-file builds, in SOURCE ORDER, each with what it ranges over.
//
//	err = addObjects(data, &builds)            range data.Objects          Objects = []*Object            → slice pass
//	err = addInputs(data, &builds)             range data.Inputs           Objects                        → slice pass
//	err = addInterfaces(data, &builds)         range data.Interfaces       map[string]*Interface          → map pass
//	err = addReferencedTypes(data, &builds)    range data.ReferencedTypes  map[string]*config.TypeReference → map pass
//
// Every pass creates a missing build with `if (*builds)[filename] == nil { addBuild(filename, x.Position, data, builds) }`
// and addBuild pins the build to the creating element's source (`buildConfig.Sources = []*ast.Source{p.Src}`), which
// later decides which directive functions are written into the file. The output is independent of map iteration only
// if every build that several sources share is created by a pass over a sorted slice, i.e. the slice passes run first
// (Props/C18Layout.lean: perSchema_slices_first, generatePerSchema_pins_independent).
//
// Recognised: a call `f(data, &builds)` anywhere in generatePerSchema's body (source order) to a package-level function
// of the package whose body has exactly one `range data.<Field>` loop; <Field>'s type is looked up in `type Data struct`
// (a map type, a slice type, or a named type declared in the package as one of the two). Anything else that touches
// `builds` before the rendering loop, a pass with no or several range loops, a field type that is neither, or an
// addBuild that does not pin `[]*ast.Source{p.Src}` makes the extractor fail (broken tie).
func init() { extractors["PerSchemaSteps"] = extractPerSchemaSteps }

func extractPerSchemaSteps(repo string) (string, error) {
	fset := token.NewFileSet()
	dir := filepath.Join(repo, "codegen")
	pkgs, err := parser.ParseDir(fset, dir, func(fi os.FileInfo) bool { return !strings.HasSuffix(fi.Name(), "_test.go") }, 0)
	if err != nil {
		return "", err
	}
	pkg := pkgs["codegen"]
	if pkg == nil {
		return "", fmt.Errorf("package codegen not found in %s", dir)
	}
	funcs := map[string]*ast.FuncDecl{}
	typeDecls := map[string]ast.Expr{}
	for _, f := range pkg.Files {
		for _, d := range f.Decls {
			switch x := d.(type) {
			case *ast.FuncDecl:
				if x.Recv == nil {
					funcs[x.Name.Name] = x
				}
			case *ast.GenDecl:
				for _, s := range x.Specs {
					if ts, ok := s.(*ast.TypeSpec); ok {
						typeDecls[ts.Name.Name] = ts.Type
					}
				}
			}
		}
	}
	dataStruct, ok := typeDecls["Data"].(*ast.StructType)
	if !ok {
		return "", fmt.Errorf("type Data struct not found in package codegen")
	}
	fieldType := map[string]ast.Expr{}
	for _, fl := range dataStruct.Fields.List {
		for _, n := range fl.Names {
			fieldType[n.Name] = fl.Type
		}
	}
	var kindOf func(e ast.Expr, depth int) string
	kindOf = func(e ast.Expr, depth int) string {
		switch t := e.(type) {
		case *ast.MapType:
			return "map"
		case *ast.ArrayType:
			return "slice"
		case *ast.Ident:
			if d, ok := typeDecls[t.Name]; ok && depth < 4 {
				return kindOf(d, depth+1)
			}
		}
		return ""
	}
	gps := funcs["generatePerSchema"]
	if gps == nil || gps.Body == nil {
		return "", fmt.Errorf("func generatePerSchema not found in package codegen")
	}
	// addBuild pins the creator's source
	ab := funcs["addBuild"]
	if ab == nil || ab.Body == nil {
		return "", fmt.Errorf("func addBuild not found in package codegen")
	}
	pinsCreator := false
	nAssign := 0
	ast.Inspect(ab.Body, func(n ast.Node) bool {
		as, ok := n.(*ast.AssignStmt)
		if !ok || len(as.Lhs) != 1 || len(as.Rhs) != 1 {
			return true
		}
		if strings.HasSuffix(mrNodeStr(fset, as.Lhs[0]), ".Sources") {
			nAssign++
			if strings.Join(strings.Fields(mrNodeStr(fset, as.Rhs[0])), "") == "[]*ast.Source{p.Src}" {
				pinsCreator = true
			}
		}
		return true
	})
	if !pinsCreator || nAssign != 1 {
		return "", fmt.Errorf("addBuild no longer pins the build to the creating element's source with a single `buildConfig.Sources = []*ast.Source{p.Src}` (%d assignments to .Sources) - the model of Model/PerSchema.lean does not apply", nAssign)
	}

	type pass struct {
		name, field, kind string
		ensures          bool
		line             int
	}
	var passes []pass
	var bad []string
	ast.Inspect(gps.Body, func(n ast.Node) bool {
		switch x := n.(type) {
		case *ast.RangeStmt:
			if strings.Contains(mrNodeStr(fset, x.X), "builds") {
				return false // the rendering loop over the finished builds
			}
		case *ast.CallExpr:
			mentions := false
			for _, a := range x.Args {
				if strings.Contains(mrNodeStr(fset, a), "builds") {
					mentions = true
				}
			}
			if !mentions {
				return true
			}
			id, ok := x.Fun.(*ast.Ident)
			fd := (*ast.FuncDecl)(nil)
			if ok {
				fd = funcs[id.Name]
			}
			if fd == nil || fd.Body == nil {
				bad = append(bad, "call "+mrNodeStr(fset, x)+" passes builds to something that is not a package-level function")
				return true
			}
			var loops []*ast.RangeStmt
			ast.Inspect(fd.Body, func(m ast.Node) bool {
				if r, ok := m.(*ast.RangeStmt); ok {
					loops = append(loops, r)
				}
				return true
			})
			if len(loops) != 1 {
				bad = append(bad, fmt.Sprintf("%s has %d range loops (expected one)", id.Name, len(loops)))
				return true
			}
			sel, ok := loops[0].X.(*ast.SelectorExpr)
			if !ok || mrNodeStr(fset, sel.X) != "data" {
				bad = append(bad, fmt.Sprintf("%s ranges over %s (expected data.<Field>)", id.Name, mrNodeStr(fset, loops[0].X)))
				return true
			}
			ft, ok := fieldType[sel.Sel.Name]
			k := ""
			if ok {
				k = kindOf(ft, 0)
			}
			if k == "" {
				bad = append(bad, fmt.Sprintf("%s ranges over data.%s whose type is neither a slice nor a map", id.Name, sel.Sel.Name))
				return true
			}
			// `if (*builds)[filename] == nil { addBuild(filename, …) }` as a statement of the loop body
			ens := false
			for _, st := range loops[0].Body.List {
				is, ok := st.(*ast.IfStmt)
				if !ok || is.Else != nil || is.Init != nil {
					continue
				}
				cond := strings.Join(strings.Fields(mrNodeStr(fset, is.Cond)), "")
				if cond != "(*builds)[filename]==nil" || len(is.Body.List) != 1 {
					continue
				}
				if es, ok := is.Body.List[0].(*ast.ExprStmt); ok {
					if c, ok := es.X.(*ast.CallExpr); ok && mrNodeStr(fset, c.Fun) == "addBuild" {
						ens = true
					}
				}
			}
			calls := 0
			ast.Inspect(fd.Body, func(m ast.Node) bool {
				if c, ok := m.(*ast.CallExpr); ok && mrNodeStr(fset, c.Fun) == "addBuild" {
					calls++
				}
				return true
			})
			if calls != 0 && !(ens && calls == 1) {
				bad = append(bad, fmt.Sprintf("%s calls addBuild outside the `if (*builds)[filename] == nil` guard of its loop", id.Name))
				return true
			}
			passes = append(passes, pass{id.Name, sel.Sel.Name, k, ens, fset.Position(x.Pos()).Line})
		}
		return true
	})
	if len(bad) > 0 {
		return "", fmt.Errorf("generatePerSchema: %s", strings.Join(bad, "; "))
	}
	if len(passes) < 2 {
		return "", fmt.Errorf("generatePerSchema: only %d passes over builds recognised - the extractor no longer understands the function", len(passes))
	}
	var b strings.Builder
	b.WriteString("import GqlgenVerif.Model.PerSchema\n")
	b.WriteString("/-! The passes of `codegen.generatePerSchema` over the per-file builds, in source order (go/extract/perschemasteps.go). -/\n")
	b.WriteString("namespace GqlgenVerif.Gen.PerSchemaSteps\nopen GqlgenVerif.PerSchema\n\n")
	b.WriteString("def passes : List Pass := [\n")
	for i, p := range passes {
		sep := ","
		if i == len(passes)-1 {
			sep = ""
		}
		fmt.Fprintf(&b, "  ⟨%s, .%s, %v⟩%s  -- line %d: range data.%s\n", kwLeanStr(p.name), p.kind, p.ensures, sep, p.line, p.field)
	}
	b.WriteString("]\n\n/-- `addBuild` sets `Config.Sources` of a new build to `[]*ast.Source{p.Src}`: the creating element's source only -/\n")
	b.WriteString("def addBuildPinsCreatorSource : Bool := true\n\nend GqlgenVerif.Gen.PerSchemaSteps\n")
	return b.String(), nil
}
