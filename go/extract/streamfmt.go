package main

import (
	"fmt"
	"go/ast"
	"go/parser"
	"go/token"
	"path/filepath"
	"reflect"
	"sort"
	"strconv"
	"strings"
)

// StreamFmt: the facts the C12 proof needs from graphql/handler/transport/{sse,http_multipart_mixed}.go
//
//	(a) the literal byte strings the two streaming transports write (format strings split at their
//	    single %s verb, the JSON keys of the incremental wrapper),
//	(b) for every call that writes to / flushes the response in those two files: whether it is
//	    serialised with the other writer goroutine - made while the transport's mutex is held (inside
//	    a function whose first statement is `x.mu.Lock()`, or inside a func literal handed to such a
//	    function), or made before the second goroutine exists.
//
// The extractor fails (broken tie) when a function it reads no longer has the shape it knows.
func init() { extractors["StreamFmt"] = extractStreamFmt }

type sfFile struct {
	fset  *token.FileSet
	file  *ast.File
	funcs map[string]*ast.FuncDecl
}

func sfParse(path string) (*sfFile, error) {
	fset := token.NewFileSet()
	f, err := parser.ParseFile(fset, path, nil, 0)
	if err != nil {
		return nil, err
	}
	r := &sfFile{fset: fset, file: f, funcs: map[string]*ast.FuncDecl{}}
	for _, d := range f.Decls {
		if fd, ok := d.(*ast.FuncDecl); ok && fd.Body != nil {
			name := fd.Name.Name
			if fd.Recv != nil && len(fd.Recv.List) == 1 {
				t := fd.Recv.List[0].Type
				if s, ok := t.(*ast.StarExpr); ok {
					t = s.X
				}
				if id, ok := t.(*ast.Ident); ok {
					name = id.Name + "." + name
				}
			}
			r.funcs[name] = fd
		}
	}
	return r, nil
}

func sfSel(e ast.Expr) string {
	switch x := e.(type) {
	case *ast.Ident:
		return x.Name
	case *ast.SelectorExpr:
		return sfSel(x.X) + "." + x.Sel.Name
	}
	return "?"
}

// fmt.Fprint* calls with a string literal as second argument, in source order
func sfPrints(n ast.Node) (lits []string, calls []*ast.CallExpr) {
	ast.Inspect(n, func(m ast.Node) bool {
		c, ok := m.(*ast.CallExpr)
		if !ok {
			return true
		}
		name := sfSel(c.Fun)
		if (name == "fmt.Fprint" || name == "fmt.Fprintf") && len(c.Args) >= 2 {
			if bl, ok := c.Args[1].(*ast.BasicLit); ok && bl.Kind == token.STRING {
				s, err := strconv.Unquote(bl.Value)
				if err == nil {
					lits = append(lits, s)
					calls = append(calls, c)
				}
			}
		}
		return true
	})
	return
}

func sfBytes(s string) string {
	p := make([]string, len(s))
	for i := 0; i < len(s); i++ {
		p[i] = fmt.Sprintf("0x%02X", s[i])
	}
	return "[" + strings.Join(p, ", ") + "]"
}

func sfSplitVerb(s string) (pre, suf string, err error) {
	if strings.Count(s, "%") != 1 || !strings.Contains(s, "%s") {
		return "", "", fmt.Errorf("format %q does not have exactly one %%s verb", s)
	}
	i := strings.Index(s, "%s")
	return s[:i], s[i+2:], nil
}

func sfNoVerb(s string) error {
	if strings.Contains(s, "%") {
		return fmt.Errorf("literal %q contains a verb", s)
	}
	return nil
}

// ---- write sites ------------------------------------------------------------------------

const (
	sfUnlocked = 0 // may run concurrently with the other writer
	sfLocked   = 1 // made while the transport's mutex is held
	sfPreSpawn = 2 // made before the second goroutine is started
	sfHelper   = 3 // inside a helper that writes to the io.Writer it is given: its call sites are the sites
	sfAtExit   = 4 // deferred before the second goroutine is started: runs when Do returns
)

func sfIsLockCall(s ast.Stmt) bool {
	es, ok := s.(*ast.ExprStmt)
	if !ok {
		return false
	}
	c, ok := es.X.(*ast.CallExpr)
	return ok && strings.HasSuffix(sfSel(c.Fun), ".mu.Lock")
}

// lockingFuncs: functions whose first statement takes the mutex and that release it only by a
// deferred Unlock or by an Unlock that is the last statement.
func sfLockingFuncs(f *sfFile) map[string]bool {
	res := map[string]bool{}
	for name, fd := range f.funcs {
		b := fd.Body.List
		if len(b) < 2 || !sfIsLockCall(b[0]) {
			continue
		}
		ok := false
		if d, isDefer := b[1].(*ast.DeferStmt); isDefer && strings.HasSuffix(sfSel(d.Call.Fun), ".mu.Unlock") {
			ok = true
		}
		if es, isExpr := b[len(b)-1].(*ast.ExprStmt); isExpr {
			if c, isCall := es.X.(*ast.CallExpr); isCall && strings.HasSuffix(sfSel(c.Fun), ".mu.Unlock") {
				ok = true
				for _, s := range b[1 : len(b)-1] { // no early Unlock
					ast.Inspect(s, func(m ast.Node) bool {
						if c2, isCall2 := m.(*ast.CallExpr); isCall2 && strings.HasSuffix(sfSel(c2.Fun), ".mu.Unlock") {
							ok = false
						}
						return true
					})
				}
			}
		}
		if ok {
			res[name] = true
			if i := strings.Index(name, "."); i >= 0 {
				res[name[i+1:]] = true // called as x.method
			}
		}
	}
	return res
}

func sfWriterParam(fd *ast.FuncDecl) string {
	for _, p := range fd.Type.Params.List {
		t := sfSel(p.Type)
		if (t == "io.Writer" || t == "http.ResponseWriter") && len(p.Names) == 1 {
			return p.Names[0].Name
		}
	}
	return ""
}

type sfSite struct {
	line  int
	what  string
	class int
}

// sfSites classifies every write/flush call of the file. `entry` is the transport's Do; `spawn`
// recognises the statement that starts the second goroutine.
func sfSites(f *sfFile, entry string, spawn func(ast.Node) bool, external map[string]bool) ([]sfSite, error) {
	locking := sfLockingFuncs(f)
	// helpers: plain functions (not locking) with a writer parameter that write to it
	helpers := map[string]bool{}
	for k := range external {
		helpers[k] = true
	}
	isWrite := func(c *ast.CallExpr) bool {
		name := sfSel(c.Fun)
		switch {
		case name == "fmt.Fprint" || name == "fmt.Fprintf" || name == "fmt.Fprintln" || name == "io.WriteString":
			return true
		case strings.HasSuffix(name, ".Write") || strings.HasSuffix(name, ".Flush") || strings.HasSuffix(name, ".WriteString"):
			return true
		case helpers[name]:
			return true
		}
		return false
	}
	for changed := true; changed; {
		changed = false
		for name, fd := range f.funcs {
			if helpers[name] || locking[name] || name == entry || fd.Recv != nil || sfWriterParam(fd) == "" {
				continue
			}
			found := false
			ast.Inspect(fd.Body, func(m ast.Node) bool {
				if c, ok := m.(*ast.CallExpr); ok && isWrite(c) {
					found = true
				}
				return true
			})
			if found {
				helpers[name] = true
				changed = true
			}
		}
	}
	var spawnPos token.Pos
	ed, ok := f.funcs[entry]
	if !ok {
		return nil, fmt.Errorf("%s not found", entry)
	}
	ast.Inspect(ed.Body, func(m ast.Node) bool {
		if m != nil && spawnPos == 0 && spawn(m) {
			spawnPos = m.Pos()
		}
		return true
	})
	if spawnPos == 0 {
		return nil, fmt.Errorf("%s: the statement that starts the second goroutine was not found", entry)
	}
	var sites []sfSite
	for name, fd := range f.funcs {
		var walk func(n ast.Node, locked bool, deferred bool)
		walk = func(n ast.Node, locked bool, deferred bool) {
			ast.Inspect(n, func(m ast.Node) bool {
				switch x := m.(type) {
				case *ast.DeferStmt:
					walk(x.Call, locked, true)
					return false
				case *ast.CallExpr:
					cn := sfSel(x.Fun)
					if i := strings.LastIndex(cn, "."); i >= 0 && locking[cn[i+1:]] || locking[cn] {
						// arguments (func literals) of a locking function run under its lock
						for _, a := range x.Args {
							walk(a, true, deferred)
						}
						return false
					}
					if isWrite(x) {
						cl := sfUnlocked
						switch {
						case locked || locking[name]:
							cl = sfLocked
						case helpers[name]:
							cl = sfHelper
						case name == entry && x.Pos() < spawnPos && deferred:
							cl = sfAtExit
						case name == entry && x.Pos() < spawnPos:
							cl = sfPreSpawn
						}
						sites = append(sites, sfSite{f.fset.Position(x.Pos()).Line, name + ":" + cn, cl})
					}
				}
				return true
			})
		}
		walk(fd.Body, false, false)
	}
	sort.Slice(sites, func(i, j int) bool { return sites[i].line < sites[j].line })
	return sites, nil
}

func sfSitesLean(name, doc string, sites []sfSite) string {
	var p []string
	var c []string
	for _, s := range sites {
		p = append(p, fmt.Sprintf("(%d, %d)", s.line, s.class))
		c = append(c, fmt.Sprintf("%d %s=%d", s.line, s.what, s.class))
	}
	return fmt.Sprintf("/-- %s\n    (source line, class): 0 unlocked, 1 under the mutex, 2 before the second goroutine exists,\n    3 inside a helper writing to the writer it is given, 4 deferred before the second goroutine exists.\n    %s -/\ndef %s : List (Nat × Nat) := [%s]\n\n", doc, strings.Join(c, "; "), name, strings.Join(p, ", "))
}

func extractStreamFmt(repo string) (string, error) {
	dir := filepath.Join(repo, "graphql", "handler", "transport")
	sse, err := sfParse(filepath.Join(dir, "sse.go"))
	if err != nil {
		return "", err
	}
	mp, err := sfParse(filepath.Join(dir, "http_multipart_mixed.go"))
	if err != nil {
		return "", err
	}
	var b strings.Builder
	b.WriteString("namespace GqlgenVerif.Gen.StreamFmt\n\n")
	def := func(name, doc, val string) {
		fmt.Fprintf(&b, "/-- %s -/\ndef %s : List Nat := %s\n\n", doc, name, sfBytes(val))
	}

	// ---- sse.go
	need := func(f *sfFile, fn string) (*ast.FuncDecl, error) {
		fd, ok := f.funcs[fn]
		if !ok {
			return nil, fmt.Errorf("function %s not found", fn)
		}
		return fd, nil
	}
	do, err := need(sse, "SSE.Do")
	if err != nil {
		return "", err
	}
	lits, _ := sfPrints(do)
	if len(lits) != 2 || sfNoVerb(lits[0]) != nil || sfNoVerb(lits[1]) != nil {
		return "", fmt.Errorf("SSE.Do: expected exactly two literal Fprint calls (stream header, complete event), found %q", lits)
	}
	def("sseHeader", "`fmt.Fprint(w, …)` that opens the stream in `SSE.Do`", lits[0])
	def("sseComplete", "the last `fmt.Fprint(w, …)` of `SSE.Do`", lits[1])
	ka, err := need(sse, "sseConnection.keepAlive")
	if err != nil {
		return "", err
	}
	lits, _ = sfPrints(ka)
	if len(lits) != 1 || sfNoVerb(lits[0]) != nil {
		return "", fmt.Errorf("sseConnection.keepAlive: expected exactly one literal Fprintf, found %q", lits)
	}
	def("ssePing", "the keep-alive comment written by `sseConnection.keepAlive`", lits[0])
	wj, err := need(sse, "writeJsonWithSSE")
	if err != nil {
		return "", err
	}
	lits, calls := sfPrints(wj)
	if len(lits) != 1 || len(calls[0].Args) != 3 {
		return "", fmt.Errorf("writeJsonWithSSE: expected exactly one Fprintf(w, format, b), found %q", lits)
	}
	pre, suf, err := sfSplitVerb(lits[0])
	if err != nil {
		return "", fmt.Errorf("writeJsonWithSSE: %v", err)
	}
	def("sseNextPre", "format of `writeJsonWithSSE` before its %s verb", pre)
	def("sseNextSuf", "format of `writeJsonWithSSE` after its %s verb", suf)
	sites, err := sfSites(sse, "SSE.Do", func(n ast.Node) bool { _, ok := n.(*ast.GoStmt); return ok }, map[string]bool{"writeJson": true})
	if err != nil {
		return "", err
	}
	b.WriteString(sfSitesLean("sseSites", "every call in sse.go that writes to or flushes the response", sites))

	// ---- http_multipart_mixed.go
	wb, err := need(mp, "writeBoundary")
	if err != nil {
		return "", err
	}
	var closeLit, openLit []string
	for _, st := range wb.Body.List {
		if ifs, ok := st.(*ast.IfStmt); ok && sfSel(ifs.Cond) == "finalResponse" && ifs.Else == nil {
			l, _ := sfPrints(ifs.Body)
			closeLit = append(closeLit, l...)
			if len(ifs.Body.List) != 2 {
				return "", fmt.Errorf("writeBoundary: `if finalResponse` body is not {Fprintf; return}")
			}
			if _, isRet := ifs.Body.List[1].(*ast.ReturnStmt); !isRet {
				return "", fmt.Errorf("writeBoundary: `if finalResponse` body does not return")
			}
		} else {
			l, _ := sfPrints(st)
			openLit = append(openLit, l...)
		}
	}
	if len(closeLit) != 1 || len(openLit) != 1 || len(wb.Body.List) != 2 {
		return "", fmt.Errorf("writeBoundary: expected `if finalResponse { Fprintf; return }; Fprintf`, found close=%q open=%q", closeLit, openLit)
	}
	if pre, suf, err = sfSplitVerb(closeLit[0]); err != nil {
		return "", fmt.Errorf("writeBoundary: %v", err)
	}
	def("mpClosePre", "closing delimiter format of `writeBoundary` before %s", pre)
	def("mpCloseSuf", "closing delimiter format of `writeBoundary` after %s", suf)
	if pre, suf, err = sfSplitVerb(openLit[0]); err != nil {
		return "", fmt.Errorf("writeBoundary: %v", err)
	}
	def("mpDelimPre", "delimiter format of `writeBoundary` before %s", pre)
	def("mpDelimSuf", "delimiter format of `writeBoundary` after %s", suf)
	ct, err := need(mp, "writeContentTypeHeader")
	if err != nil {
		return "", err
	}
	lits, _ = sfPrints(ct)
	if len(lits) != 1 || sfNoVerb(lits[0]) != nil {
		return "", fmt.Errorf("writeContentTypeHeader: expected one literal Fprintf, found %q", lits)
	}
	def("mpPartHeader", "`writeContentTypeHeader`", lits[0])
	fl, err := need(mp, "multipartResponseAggregator.flush")
	if err != nil {
		return "", err
	}
	lits, _ = sfPrints(fl)
	if len(lits) != 2 || lits[0] != lits[1] || sfNoVerb(lits[0]) != nil {
		return "", fmt.Errorf("multipartResponseAggregator.flush: expected two equal literal Fprintf separators, found %q", lits)
	}
	def("mpSep", "the separator `flush` writes after a part body (twice in the source, same literal)", lits[0])
	wi, err := need(mp, "writeIncrementalJson")
	if err != nil {
		return "", err
	}
	var keys []string
	var kinds []string
	ast.Inspect(wi, func(m ast.Node) bool {
		if st, ok := m.(*ast.StructType); ok && len(keys) == 0 {
			for _, fld := range st.Fields.List {
				if fld.Tag == nil {
					continue
				}
				tag, _ := strconv.Unquote(fld.Tag.Value)
				keys = append(keys, reflect.StructTag(tag).Get("json"))
				switch t := fld.Type.(type) {
				case *ast.ArrayType:
					kinds = append(kinds, "array")
				case *ast.Ident:
					kinds = append(kinds, t.Name)
				default:
					kinds = append(kinds, "?")
				}
			}
		}
		return true
	})
	if len(keys) != 2 || kinds[0] != "array" || kinds[1] != "bool" || strings.ContainsAny(keys[0]+keys[1], ",\"\\") {
		return "", fmt.Errorf("writeIncrementalJson: expected struct{ []… `json:k0`; bool `json:k1` }, found keys=%q kinds=%q", keys, kinds)
	}
	def("mpIncKey", "JSON key of the array of incremental payloads in `writeIncrementalJson`", keys[0])
	def("mpHasNextKey", "JSON key of the bool in `writeIncrementalJson`", keys[1])
	sites, err = sfSites(mp, "MultipartMixed.Do", func(n ast.Node) bool {
		c, ok := n.(*ast.CallExpr)
		return ok && sfSel(c.Fun) == "newMultipartResponseAggregator"
	}, map[string]bool{"writeJson": true, "SendErrorf": true})
	if err != nil {
		return "", err
	}
	b.WriteString(sfSitesLean("mpSites", "every call in http_multipart_mixed.go that writes to or flushes the response", sites))
	// the second goroutine of the aggregator only ever calls a locking method
	agg, err := need(mp, "newMultipartResponseAggregator")
	if err != nil {
		return "", err
	}
	goCalls := []string{}
	ast.Inspect(agg, func(m ast.Node) bool {
		if g, ok := m.(*ast.GoStmt); ok {
			ast.Inspect(g, func(k ast.Node) bool {
				if c, ok := k.(*ast.CallExpr); ok {
					goCalls = append(goCalls, sfSel(c.Fun))
				}
				return true
			})
		}
		return true
	})
	sort.Strings(goCalls)
	only := len(goCalls) > 0
	flushes := false
	for _, c := range goCalls {
		switch c {
		case "a.flush":
			flushes = true
		case "ticker.Stop", "time.NewTicker", "?":
		case "recover", "a.mu.Lock", "a.mu.Unlock":
			// the deferred recover that keeps a panic of `a.flush` for Done (a.flushPanic): none of them touches the response
		default:
			only = false
		}
	}
	fmt.Fprintf(&b, "/-- the ticker goroutine of `newMultipartResponseAggregator` touches the response only through the\n    locking method `a.flush` (its calls: %s) -/\ndef mpTickerOnlyFlushes : Bool := %v\n\n", strings.Join(goCalls, ", "), only && flushes)
	b.WriteString("end GqlgenVerif.Gen.StreamFmt\n")
	return b.String(), nil
}
