package main

import (
	"bytes"
	"fmt"
	"go/ast"
	"go/parser"
	"go/printer"
	"go/token"
	"os"
	"path/filepath"
	"reflect"
	"strings"
)

// PoolReset: the facts the C07 proof needs about the recycling of *graphql.RawParams in POST.Do:
//
//	(a) the fields of graphql.RawParams with their type kind and JSON key,
//	(b) the assignments `params.F = <rhs>` of the deferred function that ends in pool.Put(params),
//	(c) which fields POST.Do itself assigns before decoding, how jsonDecode is called, and that the
//	    deferred reset is installed immediately after pool.Get and that no other Get/Put site exists.
//
// The extractor fails (broken tie) when POST.Do no longer has the shape
//
//	params := pool.Get().(*graphql.RawParams)
//	defer func() { params.X = …; …; pool.Put(params) }()
func init() { extractors["PoolReset"] = extractPoolReset }

func prSrc(fset *token.FileSet, n ast.Node) string {
	var b bytes.Buffer
	printer.Fprint(&b, fset, n)
	return b.String()
}

func prTypeKind(e ast.Expr, structs map[string]bool) string {
	switch t := e.(type) {
	case *ast.Ident:
		switch t.Name {
		case "string":
			return "string"
		case "bool":
			return "bool"
		case "int", "int32", "int64", "uint", "uint32", "uint64", "float64":
			return "number"
		}
		if structs[t.Name] {
			return "struct"
		}
	case *ast.MapType:
		return "map"
	case *ast.ArrayType:
		if t.Len == nil {
			return "slice"
		}
	case *ast.StarExpr:
		return "pointer"
	case *ast.InterfaceType:
		return "interface"
	case *ast.SelectorExpr:
		if x, ok := t.X.(*ast.Ident); ok && x.Name == "http" && t.Sel.Name == "Header" {
			return "map" // net/http: type Header map[string][]string
		}
	}
	return "other"
}

func prRhsKind(e ast.Expr) string {
	switch t := e.(type) {
	case *ast.Ident:
		if t.Name == "nil" || t.Name == "false" {
			return t.Name
		}
	case *ast.BasicLit:
		if t.Kind == token.STRING && (t.Value == `""` || t.Value == "``") {
			return "emptyString"
		}
		if t.Kind == token.INT && t.Value == "0" {
			return "zeroNumber"
		}
	case *ast.CompositeLit:
		if len(t.Elts) == 0 {
			if _, isMap := t.Type.(*ast.MapType); !isMap {
				if _, isArr := t.Type.(*ast.ArrayType); !isArr {
					return "zeroStruct"
				}
			}
		}
	}
	return "nonzero"
}

// paramsField matches `params.F` and returns F.
func prParamsField(e ast.Expr, v string) (string, bool) {
	if s, ok := e.(*ast.SelectorExpr); ok {
		if x, ok := s.X.(*ast.Ident); ok && x.Name == v {
			return s.Sel.Name, true
		}
	}
	return "", false
}

func prIsPoolCall(e ast.Expr, method string) (*ast.CallExpr, bool) {
	c, ok := e.(*ast.CallExpr)
	if !ok {
		return nil, false
	}
	s, ok := c.Fun.(*ast.SelectorExpr)
	if !ok || s.Sel.Name != method {
		return nil, false
	}
	x, ok := s.X.(*ast.Ident)
	return c, ok && x.Name == "pool"
}

func prLeanStr(s string) string { return fmt.Sprintf("%q", s) }

func extractPoolReset(repo string) (string, error) {
	fset := token.NewFileSet()
	// ---- (a) RawParams
	gdir := filepath.Join(repo, "graphql")
	pkgs, err := parser.ParseDir(fset, gdir, func(fi os.FileInfo) bool { return !strings.HasSuffix(fi.Name(), "_test.go") }, 0)
	if err != nil {
		return "", err
	}
	structs := map[string]bool{}
	var raw *ast.StructType
	for _, p := range pkgs {
		for _, f := range p.Files {
			ast.Inspect(f, func(n ast.Node) bool {
				if ts, ok := n.(*ast.TypeSpec); ok {
					if st, ok := ts.Type.(*ast.StructType); ok {
						structs[ts.Name.Name] = true
						if ts.Name.Name == "RawParams" {
							raw = st
						}
					}
				}
				return true
			})
		}
	}
	if raw == nil {
		return "", fmt.Errorf("type graphql.RawParams struct not found")
	}
	var fields []string
	for _, f := range raw.Fields.List {
		kind := prTypeKind(f.Type, structs)
		key := ""
		if f.Tag != nil {
			tag := reflect.StructTag(strings.Trim(f.Tag.Value, "`"))
			key = strings.Split(tag.Get("json"), ",")[0]
		}
		if len(f.Names) == 0 {
			return "", fmt.Errorf("RawParams has an embedded field %s", prSrc(fset, f.Type))
		}
		for _, n := range f.Names {
			k := key
			if k == "" {
				k = n.Name
			}
			if !n.IsExported() {
				k = "-"
			}
			fields = append(fields, fmt.Sprintf("(%s, %s, %s)", prLeanStr(n.Name), prLeanStr(kind), prLeanStr(k)))
		}
	}

	// ---- (b), (c) transport package
	tdir := filepath.Join(repo, "graphql", "handler", "transport")
	tp, err := parser.ParseDir(fset, tdir, func(fi os.FileInfo) bool { return !strings.HasSuffix(fi.Name(), "_test.go") }, 0)
	if err != nil {
		return "", err
	}
	gets, puts := 0, 0
	var getFiles []string
	var do *ast.FuncDecl
	for _, p := range tp {
		for fn, f := range p.Files {
			ast.Inspect(f, func(n ast.Node) bool {
				if e, ok := n.(ast.Expr); ok {
					if _, ok := prIsPoolCall(e, "Get"); ok {
						gets++
						getFiles = append(getFiles, filepath.Base(fn))
					}
					if _, ok := prIsPoolCall(e, "Put"); ok {
						puts++
					}
				}
				return true
			})
			for _, d := range f.Decls {
				fd, ok := d.(*ast.FuncDecl)
				if ok && fd.Name.Name == "Do" && fd.Recv != nil && len(fd.Recv.List) == 1 && prSrc(fset, fd.Recv.List[0].Type) == "POST" {
					do = fd
				}
			}
		}
	}
	if do == nil {
		return "", fmt.Errorf("func (POST) Do not found")
	}
	// locate `v := pool.Get().(*graphql.RawParams)` at the top level of Do
	gi, v := -1, ""
	for i, s := range do.Body.List {
		as, ok := s.(*ast.AssignStmt)
		if !ok || as.Tok != token.DEFINE || len(as.Lhs) != 1 || len(as.Rhs) != 1 {
			continue
		}
		ta, ok := as.Rhs[0].(*ast.TypeAssertExpr)
		if !ok {
			continue
		}
		if _, ok := prIsPoolCall(ta.X, "Get"); ok && prSrc(fset, ta.Type) == "*graphql.RawParams" {
			gi, v = i, as.Lhs[0].(*ast.Ident).Name
		}
	}
	if gi < 0 {
		return "", fmt.Errorf("POST.Do: `params := pool.Get().(*graphql.RawParams)` not found at top level")
	}
	// the deferred function literal whose body contains pool.Put(v)
	di := -1
	var resets []string
	putLast := false
	for i := gi + 1; i < len(do.Body.List); i++ {
		ds, ok := do.Body.List[i].(*ast.DeferStmt)
		if !ok {
			continue
		}
		fl, ok := ds.Call.Fun.(*ast.FuncLit)
		if !ok || len(ds.Call.Args) != 0 {
			continue
		}
		hasPut := false
		for j, st := range fl.Body.List {
			if es, ok := st.(*ast.ExprStmt); ok {
				if c, ok := prIsPoolCall(es.X, "Put"); ok {
					if len(c.Args) != 1 || prSrc(fset, c.Args[0]) != v {
						return "", fmt.Errorf("POST.Do: pool.Put argument is %s, not %s", prSrc(fset, c.Args[0]), v)
					}
					hasPut = true
					putLast = j == len(fl.Body.List)-1
					continue
				}
			}
			if hasPut {
				continue // statements after Put are not resets
			}
			as, ok := st.(*ast.AssignStmt)
			if !ok || as.Tok != token.ASSIGN || len(as.Lhs) != 1 || len(as.Rhs) != 1 {
				return "", fmt.Errorf("POST.Do: statement in the deferred reset is not `%s.F = …`: %s", v, prSrc(fset, st))
			}
			f, ok := prParamsField(as.Lhs[0], v)
			if !ok {
				return "", fmt.Errorf("POST.Do: deferred reset assigns %s", prSrc(fset, as.Lhs[0]))
			}
			resets = append(resets, fmt.Sprintf("(%s, %s)", prLeanStr(f), prLeanStr(prRhsKind(as.Rhs[0]))))
		}
		if hasPut {
			di = i
			break
		}
	}
	if di < 0 {
		return "", fmt.Errorf("POST.Do: no `defer func() { …; pool.Put(%s) }()` after pool.Get", v)
	}
	// (c) assignments to params fields outside the deferred function, reassignments of the variable,
	// and how jsonDecode is called
	var sets []string
	decodeTarget, decodeFunc := "", ""
	reassigned := false
	for i, s := range do.Body.List {
		if i == di || i == gi {
			continue
		}
		ast.Inspect(s, func(n ast.Node) bool {
			switch t := n.(type) {
			case *ast.AssignStmt:
				for _, l := range t.Lhs {
					if f, ok := prParamsField(l, v); ok {
						sets = append(sets, prLeanStr(f))
					}
					if id, ok := l.(*ast.Ident); ok && id.Name == v {
						reassigned = true
					}
				}
			case *ast.CallExpr:
				if id, ok := t.Fun.(*ast.Ident); ok && strings.HasPrefix(id.Name, "jsonDecode") && len(t.Args) == 2 {
					decodeFunc, decodeTarget = id.Name, prSrc(fset, t.Args[1])
				}
			}
			return true
		})
	}
	if decodeTarget == "" {
		return "", fmt.Errorf("POST.Do: jsonDecode call not found")
	}
	// the decode call of UrlEncodedForm.parseJson
	formFunc, formTarget := "", ""
	for _, p := range tp {
		for _, f := range p.Files {
			for _, d := range f.Decls {
				fd, ok := d.(*ast.FuncDecl)
				if !ok || fd.Name.Name != "parseJson" || fd.Recv == nil {
					continue
				}
				ast.Inspect(fd, func(n ast.Node) bool {
					if c, ok := n.(*ast.CallExpr); ok {
						if id, ok := c.Fun.(*ast.Ident); ok && strings.HasPrefix(id.Name, "jsonDecode") && len(c.Args) == 2 {
							formFunc, formTarget = id.Name, prSrc(fset, c.Args[1])
						}
					}
					return true
				})
			}
		}
	}
	if formFunc == "" {
		return "", fmt.Errorf("UrlEncodedForm.parseJson: jsonDecode call not found")
	}
	var b strings.Builder
	b.WriteString("namespace GqlgenVerif.Gen.PoolReset\n\n")
	b.WriteString("/-- fields of `graphql.RawParams` in declaration order: (Go name, type kind, JSON key; \"-\" = never decoded) -/\n")
	fmt.Fprintf(&b, "def fields : List (String × String × String) := [%s]\n\n", strings.Join(fields, ", "))
	b.WriteString("/-- the assignments `params.F = rhs` of the deferred function of `POST.Do`, in source order, that precede\n    `pool.Put(params)`: (F, kind of rhs) -/\n")
	fmt.Fprintf(&b, "def resets : List (String × String) := [%s]\n\n", strings.Join(resets, ", "))
	b.WriteString("/-- fields of the pooled struct that `POST.Do` assigns itself (outside the deferred reset) -/\n")
	fmt.Fprintf(&b, "def transportSets : List String := [%s]\n\n", strings.Join(sets, ", "))
	fmt.Fprintf(&b, "/-- the decode call of `POST.Do`: function and second argument -/\ndef decodeFunc : String := %s\ndef decodeTarget : String := %s\n\n", prLeanStr(decodeFunc), prLeanStr(decodeTarget))
	fmt.Fprintf(&b, "/-- the decode call of `UrlEncodedForm.parseJson` -/\ndef formDecodeFunc : String := %s\ndef formDecodeTarget : String := %s\n\n", prLeanStr(formFunc), prLeanStr(formTarget))
	fmt.Fprintf(&b, "/-- `pool.Get` / `pool.Put` call sites in package transport (non-test files) -/\ndef poolGets : Nat := %d\ndef poolPuts : Nat := %d\n", gets, puts)
	fmt.Fprintf(&b, "def poolGetFiles : List String := [%s]\n\n", prLeanStr(strings.Join(getFiles, ",")))
	fmt.Fprintf(&b, "/-- the `defer` is the statement right after `pool.Get`; `pool.Put` is the last statement of the deferred\n    function; the variable is never re-assigned by a plain assignment in `Do` -/\n")
	fmt.Fprintf(&b, "def deferRightAfterGet : Bool := %v\ndef putIsLast : Bool := %v\ndef varReassigned : Bool := %v\n\n", di == gi+1, putLast, reassigned)
	b.WriteString("end GqlgenVerif.Gen.PoolReset\n")
	return b.String(), nil
}
