package main

import (
	"fmt"
	"go/ast"
	"go/parser"
	"go/token"
	"os"
	"path/filepath"
	"regexp"
	"sort"
	"strconv"
	"strings"
)

// FedKeyWalk: the statements of every generated `entityResolverNameFor<T>` (the function that checks that a
// representation carries all components of a `@key` and names the resolver for it), translated statement by
// statement into a small cursor program, and - from resolveEntity / resolveManyEntities of the same file - the
// paths of the representation each resolver's key arguments are unmarshalled from.
//
// -arg is a comma-separated list of generated package directories (one per probe variant; file federation.go).
//
//	m = rep                                               ("reset", "")
//	val, ok = m["k"]       + if !ok { …; break }          ("look", "k")
//	if m, ok = val.(map[string]any); !ok { …; break }     ("descend", "")
//	if allNull { allNull = val == nil }                   ("null", "")
//
// Every `for { … }` block (one per @key, directive order) must start with the declarations, `allNull := true`, and
// end with `if allNull { …; break }; return "<resolver>", nil`; any other statement is not recognised (the
// extraction fails: broken tie).
func init() { extractors["FedKeyWalk"] = extractFedKeyWalk; needsArg["FedKeyWalk"] = true }

type kwBlock struct {
	resolver string
	ops      [][2]string
}

func endsInBreak(b *ast.BlockStmt) bool {
	if len(b.List) == 0 {
		return false
	}
	br, ok := b.List[len(b.List)-1].(*ast.BranchStmt)
	return ok && br.Tok == token.BREAK && br.Label == nil
}

// repPath: rep["a"].(map[string]any)["b"] -> ("rep", [a b])
func repPath(fset *token.FileSet, e ast.Expr) (string, []string, bool) {
	switch x := e.(type) {
	case *ast.IndexExpr:
		lit, ok := x.Index.(*ast.BasicLit)
		if !ok || lit.Kind != token.STRING {
			return src(fset, e), nil, true // an index that is not a field name: a base expression (reps[i])
		}
		k, err := strconv.Unquote(lit.Value)
		if err != nil {
			return "", nil, false
		}
		base, p, ok := repPath(fset, x.X)
		return base, append(p, k), ok
	case *ast.TypeAssertExpr:
		if src(fset, x.Type) != "map[string]any" {
			return "", nil, false
		}
		return repPath(fset, x.X)
	case *ast.ParenExpr:
		return repPath(fset, x.X)
	default:
		return src(fset, e), nil, true
	}
}

var idArgRe = regexp.MustCompile(`^id\d+$`)

func keyWalkBlocks(fset *token.FileSet, fd *ast.FuncDecl) ([]kwBlock, error) {
	var out []kwBlock
	for _, st := range fd.Body.List {
		fs, ok := st.(*ast.ForStmt)
		if !ok {
			continue
		}
		if fs.Init != nil || fs.Cond != nil || fs.Post != nil {
			return nil, fmt.Errorf("%s: a loop that is not `for { … }`", fd.Name.Name)
		}
		var b kwBlock
		l := fs.Body.List
		inited := false
		i := 0
		bad := func(s ast.Stmt) error {
			return fmt.Errorf("%s: statement not recognised: %s", fd.Name.Name, src(fset, s))
		}
		for ; i < len(l); i++ {
			s := l[i]
			switch n := s.(type) {
			case *ast.DeclStmt:
				continue
			case *ast.ReturnStmt:
				if i != len(l)-1 || len(n.Results) != 2 || src(fset, n.Results[1]) != "nil" {
					return nil, bad(s)
				}
				lit, ok := n.Results[0].(*ast.BasicLit)
				if !ok {
					return nil, bad(s)
				}
				b.resolver, _ = strconv.Unquote(lit.Value)
			case *ast.AssignStmt:
				text := src(fset, s)
				switch {
				case text == "_ = val":
				case text == "allNull := true":
					if len(b.ops) != 0 {
						return nil, bad(s)
					}
					inited = true
				case text == "m = rep":
					b.ops = append(b.ops, [2]string{"reset", ""})
				case len(n.Lhs) == 2 && src(fset, n.Lhs[0]) == "val" && src(fset, n.Lhs[1]) == "ok" && n.Tok == token.ASSIGN:
					base, p, ok := repPath(fset, n.Rhs[0])
					if !ok || base != "m" || len(p) != 1 {
						return nil, bad(s)
					}
					// the next statement must leave the block when the field is absent
					if i+1 >= len(l) {
						return nil, bad(s)
					}
					ifs, ok := l[i+1].(*ast.IfStmt)
					if !ok || ifs.Init != nil || src(fset, ifs.Cond) != "!ok" || ifs.Else != nil || !endsInBreak(ifs.Body) {
						return nil, bad(l[i+1])
					}
					i++
					b.ops = append(b.ops, [2]string{"look", p[0]})
				default:
					return nil, bad(s)
				}
			case *ast.IfStmt:
				cond := src(fset, n.Cond)
				switch {
				case n.Init != nil && src(fset, n.Init) == "m, ok = val.(map[string]any)" && cond == "!ok" && n.Else == nil && endsInBreak(n.Body):
					b.ops = append(b.ops, [2]string{"descend", ""})
				case n.Init == nil && cond == "allNull" && n.Else == nil && len(n.Body.List) == 1 && src(fset, n.Body.List[0]) == "allNull = val == nil":
					b.ops = append(b.ops, [2]string{"null", ""})
				case n.Init == nil && cond == "allNull" && n.Else == nil && endsInBreak(n.Body) && i == len(l)-2:
					// the closing guard: all key fields null -> this resolver is not used
				default:
					return nil, bad(s)
				}
			default:
				return nil, bad(s)
			}
		}
		if !inited || b.resolver == "" || len(l) < 2 {
			return nil, fmt.Errorf("%s: a block without `allNull := true` / `return \"<resolver>\", nil`", fd.Name.Name)
		}
		if g, ok := l[len(l)-2].(*ast.IfStmt); !ok || src(fset, g.Cond) != "allNull" || !endsInBreak(g.Body) {
			return nil, fmt.Errorf("%s: the block of %s does not end with the all-null guard", fd.Name.Name, b.resolver)
		}
		out = append(out, b)
	}
	if len(out) == 0 {
		return nil, fmt.Errorf("%s: no `for { … }` block", fd.Name.Name)
	}
	return out, nil
}

func kwStrList(xs []string) string {
	var parts []string
	for _, x := range xs {
		parts = append(parts, leanStr(x))
	}
	return "[" + strings.Join(parts, ", ") + "]"
}

func extractFedKeyWalk(repo string) (string, error) {
	if Arg == "" {
		return "", fmt.Errorf("FedKeyWalk needs -arg <generated package dir>[,<dir>…]")
	}
	// servers whose facts are identical throughout form one group (the facts are listed once per group)
	type rd struct {
		fn, name, base string
		paths          [][]string
	}
	type wk struct {
		entity string
		blocks []kwBlock
	}
	type srvFacts struct {
		walks []wk
		reads []rd
	}
	var order []string
	groups := map[string][]string{}
	facts := map[string]srvFacts{}
	for _, dir := range strings.Split(Arg, ",") {
		srv := filepath.Base(dir)
		fn := filepath.Join(dir, "federation.go")
		b, err := os.ReadFile(fn)
		if err != nil {
			return "", err
		}
		fset := token.NewFileSet()
		f, err := parser.ParseFile(fset, fn, b, 0)
		if err != nil {
			return "", err
		}
		var sf srvFacts
		for _, d := range f.Decls {
			fd, ok := d.(*ast.FuncDecl)
			if !ok || fd.Body == nil {
				continue
			}
			name := fd.Name.Name
			if strings.HasPrefix(name, "entityResolverNameFor") {
				blocks, err := keyWalkBlocks(fset, fd)
				if err != nil {
					return "", fmt.Errorf("%s: %w", srv, err)
				}
				sf.walks = append(sf.walks, wk{entity: strings.TrimPrefix(name, "entityResolverNameFor"), blocks: blocks})
			}
			if name != "resolveEntity" && name != "resolveManyEntities" {
				continue
			}
			// every `case "<resolver>":` with its `idN, err := <unmarshal>(…, <representation path>)` statements
			var visit func(n ast.Node) bool
			var cur *rd
			var ferr error
			visit = func(n ast.Node) bool {
				switch x := n.(type) {
				case *ast.CaseClause:
					if len(x.List) != 1 {
						return true
					}
					lit, ok := x.List[0].(*ast.BasicLit)
					if !ok || lit.Kind != token.STRING {
						return true
					}
					nm, _ := strconv.Unquote(lit.Value)
					saved := cur
					c := &rd{fn: name, name: nm}
					cur = c
					for _, s := range x.Body {
						ast.Inspect(s, visit)
					}
					cur = saved
					if len(c.paths) > 0 {
						sf.reads = append(sf.reads, *c)
					}
					return false
				case *ast.AssignStmt:
					if cur == nil || x.Tok != token.DEFINE || len(x.Lhs) != 2 || len(x.Rhs) != 1 {
						return true
					}
					id, ok := x.Lhs[0].(*ast.Ident)
					if !ok || !idArgRe.MatchString(id.Name) {
						return true
					}
					call, ok := x.Rhs[0].(*ast.CallExpr)
					if !ok || len(call.Args) == 0 {
						ferr = fmt.Errorf("%s: key argument not recognised: %s", name, src(fset, x))
						return false
					}
					base, p, ok := repPath(fset, call.Args[len(call.Args)-1])
					if !ok || len(p) == 0 {
						ferr = fmt.Errorf("%s: key argument not read from the representation: %s", name, src(fset, x))
						return false
					}
					if n, _ := strconv.Atoi(id.Name[2:]); n != len(cur.paths) {
						ferr = fmt.Errorf("%s: key arguments of %s out of order at %s", name, cur.name, id.Name)
						return false
					}
					if cur.base != "" && cur.base != base {
						base = cur.base + "|" + base
					}
					cur.base = base
					cur.paths = append(cur.paths, p)
				}
				return true
			}
			ast.Inspect(fd.Body, visit)
			if ferr != nil {
				return "", fmt.Errorf("%s: %w", srv, ferr)
			}
		}
		if len(sf.walks) == 0 {
			return "", fmt.Errorf("%s: generated federation.go has no entityResolverNameFor<T> function", srv)
		}
		sort.SliceStable(sf.reads, func(i, j int) bool { return sf.reads[i].name < sf.reads[j].name })
		key := fmt.Sprintf("%q", sf)
		if _, ok := groups[key]; !ok {
			order = append(order, key)
			facts[key] = sf
		}
		groups[key] = append(groups[key], srv)
	}
	// positions (hints for the Lean side, which checks that the names at these positions agree): of the reads of a
	// block's resolver in `reads`, of the walk holding a read's resolver in `walks`; a name without a partner gets
	// a position outside the list
	opCode := map[string]int{"reset": 0, "look": 1, "descend": 2, "null": 3}
	var walks, reads, servers []string
	nW, nR := 0, 0
	for _, key := range order {
		nW += len(facts[key].walks)
		nR += len(facts[key].reads)
	}
	w0, r0 := 0, 0
	for gi, key := range order {
		sf := facts[key]
		servers = append(servers, kwStrList(groups[key]))
		readPos, walkPos := map[string]int{}, map[string]int{}
		for i, r := range sf.reads {
			if _, ok := readPos[r.name]; !ok {
				readPos[r.name] = r0 + i
			}
		}
		for i, w := range sf.walks {
			for _, bl := range w.blocks {
				if _, ok := walkPos[bl.resolver]; !ok {
					walkPos[bl.resolver] = w0 + i
				}
			}
		}
		for _, w := range sf.walks {
			var bs []string
			for _, bl := range w.blocks {
				var ops []string
				for _, o := range bl.ops {
					ops = append(ops, fmt.Sprintf("(%d, %s)", opCode[o[0]], leanStr(o[1])))
				}
				pos, ok := readPos[bl.resolver]
				if !ok {
					pos = nR
				}
				bs = append(bs, fmt.Sprintf("(%s, %d, [%s])", leanStr(bl.resolver), pos, strings.Join(ops, ", ")))
			}
			walks = append(walks, fmt.Sprintf("(%d, %s, [%s])", gi, leanStr(w.entity), strings.Join(bs, ", ")))
		}
		for _, r := range sf.reads {
			var ps []string
			for _, p := range r.paths {
				ps = append(ps, kwStrList(p))
			}
			pos, ok := walkPos[r.name]
			if !ok {
				pos = nW
			}
			reads = append(reads, fmt.Sprintf("(%d, %s, %d, %s, [%s])", gi, leanStr(r.name), pos, leanStr(r.base), strings.Join(ps, ", ")))
		}
		w0 += len(sf.walks)
		r0 += len(sf.reads)
	}
	var sb strings.Builder
	sb.WriteString("/-! The key-field walk of the federation code generated on this run: `entityResolverNameFor<T>` statement by\nstatement, and where `resolveEntity` / `resolveManyEntities` read the key arguments of each resolver. -/\n")
	sb.WriteString("namespace GqlgenVerif.Gen.FedKeyWalk\n\n")
	sb.WriteString("/-- the generated servers, grouped: the servers of one group have identical facts below -/\n")
	sb.WriteString("def servers : List (List String) := [" + strings.Join(servers, ", ") + "]\n\n")
	sb.WriteString("/-- (server group, entity, one entry per `for { … }` block of entityResolverNameFor<T> in order:\n(the resolver the block returns, the position of that resolver's entry in `reads`, its statements:\n(0, _) = `m = rep`, (1, k) = `val, ok = m[k]; if !ok { …; break }`,\n(2, _) = `if m, ok = val.(map[string]any); !ok { …; break }`, (3, _) = `if allNull { allNull = val == nil }`)) -/\n")
	sb.WriteString("def walks : List (Nat × String × List (String × Nat × List (Nat × String))) := [\n  " + strings.Join(walks, ",\n  ") + "]\n\n")
	sb.WriteString("/-- (server group, resolver, the position in `walks` of the entity whose walk returns it, the expression the key\narguments are read from, the path of every key argument `idN` in that expression, in argument order) -/\n")
	sb.WriteString("def reads : List (Nat × String × Nat × String × List (List String)) := [\n  " + strings.Join(reads, ",\n  ") + "]\n\n")
	sb.WriteString("end GqlgenVerif.Gen.FedKeyWalk\n")
	return sb.String(), nil
}
