package main

import (
	"fmt"
	"go/ast"
	"go/parser"
	"go/token"
	"path/filepath"
	"strings"
)

// ServeRecover (property C04, serialization-time panics): where the runtime itself - not the generated
// code - recovers a panic that escaped field execution (a custom scalar's MarshalGQL runs when the
// response is written, after every generated recover has returned):
//
//	graphql/handler/server.go              (*Server).ServeHTTP: is its FIRST statement a `defer func(){ if
//	                                       err := recover(); err != nil { ... } }()`, does the handler present
//	                                       the error through the executor (PresentRecoveredError -> the user's
//	                                       RecoverFunc, once), write a status and a marshalled graphql.Response
//	graphql/handler/transport/websocket.go every `go func(){...}()` of the file: does its body install a
//	                                       deferred recover before anything that runs user code
//
// Translated as found: a removed or moved recover is "unprotected" and Props/C04Gen stops closing.
func init() { extractors["ServeRecover"] = extractServeRecover }

// deferredRecover reports whether st is `defer func(){ ... recover() ... }()` and returns the literal's body.
func deferredRecover(st ast.Stmt) (*ast.BlockStmt, bool) {
	d, ok := st.(*ast.DeferStmt)
	if !ok {
		return nil, false
	}
	fl, ok := d.Call.Fun.(*ast.FuncLit)
	if !ok {
		return nil, false
	}
	found := false
	ast.Inspect(fl.Body, func(n ast.Node) bool {
		if c, ok := n.(*ast.CallExpr); ok {
			if id, ok := c.Fun.(*ast.Ident); ok && id.Name == "recover" && len(c.Args) == 0 {
				found = true
			}
		}
		return true
	})
	return fl.Body, found
}

func callsSelector(b ast.Node, name string) bool {
	found := false
	ast.Inspect(b, func(n ast.Node) bool {
		if c, ok := n.(*ast.CallExpr); ok {
			if s, ok := c.Fun.(*ast.SelectorExpr); ok && s.Sel.Name == name {
				found = true
			}
		}
		return true
	})
	return found
}

func extractServeRecover(repo string) (string, error) {
	fset := token.NewFileSet()
	var sb strings.Builder
	sb.WriteString("namespace GqlgenVerif.Gen.ServeRecover\n\n")

	// ---- ServeHTTP
	sf, err := parser.ParseFile(fset, filepath.Join(repo, "graphql/handler/server.go"), nil, 0)
	if err != nil {
		return "", err
	}
	var serve *ast.FuncDecl
	for _, d := range sf.Decls {
		if fd, ok := d.(*ast.FuncDecl); ok && fd.Name.Name == "ServeHTTP" && fd.Recv != nil {
			serve = fd
		}
	}
	if serve == nil || serve.Body == nil || len(serve.Body.List) == 0 {
		return "", fmt.Errorf("(*Server).ServeHTTP not found in graphql/handler/server.go")
	}
	first := "other"
	presents, status, writes := false, "none", false
	if body, ok := deferredRecover(serve.Body.List[0]); ok {
		first = "defer-recover"
		presents = callsSelector(body, "PresentRecoveredError")
		writes = callsSelector(body, "Write") || callsSelector(body, "sendError") || callsSelector(body, "sendErrorf")
		ast.Inspect(body, func(n ast.Node) bool {
			if c, ok := n.(*ast.CallExpr); ok {
				if s, ok := c.Fun.(*ast.SelectorExpr); ok && s.Sel.Name == "WriteHeader" && len(c.Args) == 1 {
					if a, ok := c.Args[0].(*ast.SelectorExpr); ok {
						status = a.Sel.Name
					}
				}
			}
			return true
		})
	} else {
		// a recover somewhere later does not protect what runs before it
		for _, st := range serve.Body.List[1:] {
			if _, ok := deferredRecover(st); ok {
				first = "recover-not-first"
			}
		}
	}
	fmt.Fprintf(&sb, "/-- `(*Server).ServeHTTP`: its first statement; what the recover handler does -/\n")
	fmt.Fprintf(&sb, "def serveFirst : String := %q\n", first)
	fmt.Fprintf(&sb, "def servePresents : Bool := %v\n", presents)
	fmt.Fprintf(&sb, "def serveStatus : String := %q\n", status)
	fmt.Fprintf(&sb, "def serveWritesBody : Bool := %v\n\n", writes)

	// ---- websocket goroutines
	wf, err := parser.ParseFile(fset, filepath.Join(repo, "graphql/handler/transport/websocket.go"), nil, 0)
	if err != nil {
		return "", err
	}
	type g struct{ fn, class string }
	var gs []g
	for _, d := range wf.Decls {
		fd, ok := d.(*ast.FuncDecl)
		if !ok || fd.Body == nil {
			continue
		}
		ast.Inspect(fd.Body, func(n ast.Node) bool {
			gst, ok := n.(*ast.GoStmt)
			if !ok {
				return true
			}
			fl, ok := gst.Call.Fun.(*ast.FuncLit)
			if !ok {
				// `go c.method()`: runs no user code unless it is one of the executing methods
				name := "?"
				if s, ok := gst.Call.Fun.(*ast.SelectorExpr); ok {
					name = s.Sel.Name
				}
				class := "unknown-callee"
				for _, d2 := range wf.Decls {
					md, ok := d2.(*ast.FuncDecl)
					if !ok || md.Name.Name != name || md.Body == nil {
						continue
					}
					class = "no-user-code"
					if callsSelector(md.Body, "DispatchOperation") || callsSelector(md.Body, "CreateOperationContext") ||
						containsCallIdent(md.Body, "responses") {
						class = "unprotected"
						if len(md.Body.List) > 0 {
							if _, ok := deferredRecover(md.Body.List[0]); ok {
								class = "recover-first"
							}
						}
					}
				}
				gs = append(gs, g{fd.Name.Name + ":" + name, class})
				return true
			}
			class := "no-user-code"
			runsUser := callsSelector(fl.Body, "DispatchOperation") || callsSelector(fl.Body, "CreateOperationContext")
			responses := false
			ast.Inspect(fl.Body, func(m ast.Node) bool {
				if c, ok := m.(*ast.CallExpr); ok {
					if id, ok := c.Fun.(*ast.Ident); ok && id.Name == "responses" {
						responses = true
					}
				}
				return true
			})
			if runsUser || responses {
				class = "unprotected"
				// the deferred recover must come before the first statement that can run user code
				for _, st := range fl.Body.List {
					if _, ok := deferredRecover(st); ok {
						class = "recover-first"
						break
					}
					if callsSelector(st, "DispatchOperation") || containsCallIdent(st, "responses") {
						break
					}
				}
			}
			gs = append(gs, g{fd.Name.Name, class})
			return true
		})
	}
	sb.WriteString("/-- every `go` statement of transport/websocket.go: enclosing function, classification -/\n")
	sb.WriteString("def wsGoStmts : List (String × String) := [\n")
	for i, x := range gs {
		sep := ","
		if i == len(gs)-1 {
			sep = ""
		}
		fmt.Fprintf(&sb, "  (%q, %q)%s\n", x.fn, x.class, sep)
	}
	sb.WriteString("]\n\nend GqlgenVerif.Gen.ServeRecover\n")
	return sb.String(), nil
}

func containsCallIdent(n ast.Node, name string) bool {
	found := false
	ast.Inspect(n, func(m ast.Node) bool {
		if c, ok := m.(*ast.CallExpr); ok {
			if id, ok := c.Fun.(*ast.Ident); ok && id.Name == name {
				found = true
			}
		}
		return true
	})
	return found
}
