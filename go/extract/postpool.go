package main

import (
	"fmt"
	"go/ast"
	"go/parser"
	"go/token"
	"os"
	"path/filepath"
	"sort"
	"strings"
)

// PostPool (property C15, requests in flight at once): for every function of package
// graphql/handler/transport that takes an object from a package-level sync.Pool, the pool-relevant event
// sequence of EVERY return path:
//
//	get  v := <pool>.Get().(*T)
//	use  a statement / condition / return value that mentions v
//	put  <pool>.Put(v)
//
// with deferred function literals expanded where they run (at the return, last registered first).
// Consecutive `use`s are collapsed. Props/C15Pool.lean proves every path `get use* put`.
// `stray` counts Get/Put calls on a pool that the enumeration did not consume (inside loops, switches,
// non-deferred closures, other functions, larger expressions).
//
// The extractor fails (broken tie) on control flow it cannot enumerate when that control flow mentions the
// pool, the pooled variable or contains a return.
func init() { extractors["PostPool"] = extractPostPool }

type ppState struct {
	evs    []string
	defers [][]string
}

func (s ppState) add(ev ...string) ppState {
	n := ppState{evs: append([]string{}, s.evs...), defers: s.defers}
	for _, e := range ev {
		if e == "use" && len(n.evs) > 0 && n.evs[len(n.evs)-1] == "use" {
			continue
		}
		n.evs = append(n.evs, e)
	}
	return n
}

type ppWalker struct {
	pools    map[string]bool
	v        string // the pooled variable ("" until the Get)
	consumed int
	paths    [][]string
	err      error
}

func (w *ppWalker) isPoolCall(e ast.Expr, method string) (*ast.CallExpr, bool) {
	c, ok := e.(*ast.CallExpr)
	if !ok {
		return nil, false
	}
	sel, ok := c.Fun.(*ast.SelectorExpr)
	if !ok || sel.Sel.Name != method {
		return nil, false
	}
	id, ok := sel.X.(*ast.Ident)
	return c, ok && w.pools[id.Name]
}

func (w *ppWalker) mentions(n ast.Node, name string) bool {
	if n == nil || name == "" {
		return false
	}
	found := false
	ast.Inspect(n, func(x ast.Node) bool {
		if id, ok := x.(*ast.Ident); ok && id.Name == name {
			found = true
		}
		return !found
	})
	return found
}

func (w *ppWalker) mentionsPool(n ast.Node) bool {
	if n == nil {
		return false
	}
	found := false
	ast.Inspect(n, func(x ast.Node) bool {
		if id, ok := x.(*ast.Ident); ok && w.pools[id.Name] {
			found = true
		}
		return !found
	})
	return found
}

func ppHasReturn(n ast.Node) bool {
	found := false
	ast.Inspect(n, func(x ast.Node) bool {
		switch x.(type) {
		case *ast.ReturnStmt:
			found = true
		case *ast.FuncLit:
			return false
		}
		return !found
	})
	return found
}

func (w *ppWalker) fail(fset *token.FileSet, n ast.Node, what string) {
	if w.err == nil {
		w.err = fmt.Errorf("%s: %s", fset.Position(n.Pos()), what)
	}
}

// simple: events of a statement without control flow of its own
func (w *ppWalker) simple(fset *token.FileSet, s ast.Node) []string {
	// v := pool.Get().(*T)
	if as, ok := s.(*ast.AssignStmt); ok && len(as.Lhs) == 1 && len(as.Rhs) == 1 {
		if ta, ok := as.Rhs[0].(*ast.TypeAssertExpr); ok {
			if _, ok := w.isPoolCall(ta.X, "Get"); ok {
				if id, ok := as.Lhs[0].(*ast.Ident); ok && w.v == "" && as.Tok == token.DEFINE {
					w.v = id.Name
					w.consumed++
					return []string{"get"}
				}
				w.fail(fset, s, "second / unrecognised pool.Get assignment")
				return nil
			}
		}
	}
	if es, ok := s.(*ast.ExprStmt); ok {
		if c, ok := w.isPoolCall(es.X, "Put"); ok {
			if len(c.Args) == 1 {
				if id, ok := c.Args[0].(*ast.Ident); ok && id.Name == w.v {
					w.consumed++
					return []string{"put"}
				}
			}
			w.fail(fset, s, "pool.Put of something else than the pooled variable")
			return nil
		}
	}
	if w.mentionsPool(s) {
		w.fail(fset, s, "pool mentioned in a statement that is neither `v := pool.Get().(*T)` nor `pool.Put(v)`")
		return nil
	}
	if w.mentions(s, w.v) {
		return []string{"use"}
	}
	return nil
}

// closure: events of a deferred function literal's body (straight-line)
func (w *ppWalker) closure(fset *token.FileSet, fl *ast.FuncLit) []string {
	var evs []string
	for _, s := range fl.Body.List {
		switch s.(type) {
		case *ast.ExprStmt, *ast.AssignStmt, *ast.DeclStmt, *ast.IncDecStmt:
			for _, e := range w.simple(fset, s) {
				if e == "use" && len(evs) > 0 && evs[len(evs)-1] == "use" {
					continue
				}
				evs = append(evs, e)
			}
		default:
			if w.mentionsPool(s) || w.mentions(s, w.v) {
				w.fail(fset, s, "control flow mentioning the pool / pooled variable inside a deferred function")
			}
		}
	}
	return evs
}

func (w *ppWalker) finish(st ppState) {
	for i := len(st.defers) - 1; i >= 0; i-- {
		st = st.add(st.defers[i]...)
	}
	w.paths = append(w.paths, st.evs)
}

// walk returns the states that fall through the end of stmts
func (w *ppWalker) walk(fset *token.FileSet, stmts []ast.Stmt, in []ppState) []ppState {
	cur := in
	for _, s := range stmts {
		if len(cur) == 0 || w.err != nil {
			return nil
		}
		switch s := s.(type) {
		case *ast.ReturnStmt:
			for _, st := range cur {
				if w.mentionsPool(s) {
					w.fail(fset, s, "pool mentioned in a return")
				}
				if w.mentions(s, w.v) {
					st = st.add("use")
				}
				w.finish(st)
			}
			return nil
		case *ast.DeferStmt:
			fl, ok := s.Call.Fun.(*ast.FuncLit)
			if !ok {
				if w.mentionsPool(s) {
					w.fail(fset, s, "deferred pool call that is not a function literal")
				}
				ev := []string(nil)
				if w.mentions(s, w.v) {
					ev = []string{"use"}
				}
				for i := range cur {
					cur[i] = ppState{evs: cur[i].evs, defers: append(append([][]string{}, cur[i].defers...), ev)}
				}
				continue
			}
			ev := w.closure(fset, fl)
			for i := range cur {
				cur[i] = ppState{evs: cur[i].evs, defers: append(append([][]string{}, cur[i].defers...), ev)}
			}
		case *ast.BlockStmt:
			cur = w.walk(fset, s.List, cur)
		case *ast.IfStmt:
			var pre []string
			if s.Init != nil {
				pre = append(pre, w.simple(fset, s.Init)...)
			}
			if w.mentionsPool(s.Cond) {
				w.fail(fset, s, "pool mentioned in a condition")
			}
			if w.mentions(s.Cond, w.v) {
				pre = append(pre, "use")
			}
			var base []ppState
			for _, st := range cur {
				base = append(base, st.add(pre...))
			}
			out := w.walk(fset, s.Body.List, base)
			switch e := s.Else.(type) {
			case nil:
				out = append(out, base...)
			case *ast.BlockStmt:
				out = append(out, w.walk(fset, e.List, base)...)
			case *ast.IfStmt:
				out = append(out, w.walk(fset, []ast.Stmt{e}, base)...)
			}
			cur = out
		case *ast.ExprStmt, *ast.AssignStmt, *ast.DeclStmt, *ast.IncDecStmt:
			ev := w.simple(fset, s)
			for i := range cur {
				cur[i] = cur[i].add(ev...)
			}
		default:
			// loops, switches, selects, go statements, labels ...
			if w.mentionsPool(s) || ppHasReturn(s) {
				w.fail(fset, s, fmt.Sprintf("unsupported control flow (%T) with a pool call or a return", s))
				return nil
			}
			if w.mentions(s, w.v) {
				for i := range cur {
					cur[i] = cur[i].add("use")
				}
			}
		}
	}
	return cur
}

func extractPostPool(repo string) (string, error) {
	dir := filepath.Join(repo, "graphql", "handler", "transport")
	ents, err := os.ReadDir(dir)
	if err != nil {
		return "", err
	}
	fset := token.NewFileSet()
	var files []*ast.File
	for _, e := range ents {
		n := e.Name()
		if !strings.HasSuffix(n, ".go") || strings.HasSuffix(n, "_test.go") {
			continue
		}
		f, err := parser.ParseFile(fset, filepath.Join(dir, n), nil, 0)
		if err != nil {
			return "", err
		}
		files = append(files, f)
	}
	// package-level sync.Pool variables
	pools := map[string]bool{}
	for _, f := range files {
		for _, d := range f.Decls {
			gd, ok := d.(*ast.GenDecl)
			if !ok || gd.Tok != token.VAR {
				continue
			}
			for _, sp := range gd.Specs {
				vs := sp.(*ast.ValueSpec)
				for i, n := range vs.Names {
					isPool := false
					if vs.Type != nil && prSrc(fset, vs.Type) == "sync.Pool" {
						isPool = true
					}
					if i < len(vs.Values) {
						if cl, ok := vs.Values[i].(*ast.CompositeLit); ok && prSrc(fset, cl.Type) == "sync.Pool" {
							isPool = true
						}
						if ue, ok := vs.Values[i].(*ast.UnaryExpr); ok {
							if cl, ok := ue.X.(*ast.CompositeLit); ok && prSrc(fset, cl.Type) == "sync.Pool" {
								isPool = true
							}
						}
					}
					if isPool {
						pools[n.Name] = true
					}
				}
			}
		}
	}
	if len(pools) == 0 {
		return "", fmt.Errorf("no package-level sync.Pool in %s (the POST transport no longer pools its params?)", dir)
	}
	total := 0
	type fn struct {
		name  string
		paths [][]string
	}
	var fns []fn
	consumed := 0
	for _, f := range files {
		for _, d := range f.Decls {
			fd, ok := d.(*ast.FuncDecl)
			if !ok || fd.Body == nil {
				continue
			}
			w := &ppWalker{pools: pools}
			gets := 0
			ast.Inspect(fd, func(n ast.Node) bool {
				if e, ok := n.(ast.Expr); ok {
					if _, ok := w.isPoolCall(e, "Get"); ok {
						total++
						gets++
					}
					if _, ok := w.isPoolCall(e, "Put"); ok {
						total++
					}
				}
				return true
			})
			if gets == 0 {
				continue
			}
			name := fd.Name.Name
			if fd.Recv != nil && len(fd.Recv.List) == 1 {
				name = strings.TrimPrefix(prSrc(fset, fd.Recv.List[0].Type), "*") + "." + name
			}
			for _, st := range w.walk(fset, fd.Body.List, []ppState{{}}) {
				w.finish(st) // falls off the end of the function
			}
			if w.err != nil {
				return "", fmt.Errorf("%s: %v", name, w.err)
			}
			consumed += w.consumed
			fns = append(fns, fn{name, w.paths})
		}
	}
	sort.Slice(fns, func(i, j int) bool { return fns[i].name < fns[j].name })
	var b strings.Builder
	b.WriteString("import GqlgenVerif.Model.ApqPool\n")
	b.WriteString("/-! Pool-relevant events of every return path of the functions of graphql/handler/transport that take an\nobject from a package-level sync.Pool. -/\n")
	b.WriteString("namespace GqlgenVerif.Gen.PostPool\nopen GqlgenVerif.ApqPool\n\n")
	var pn []string
	for p := range pools {
		pn = append(pn, prLeanStr(p))
	}
	sort.Strings(pn)
	fmt.Fprintf(&b, "/-- package-level `sync.Pool` variables -/\ndef pools : List String := [%s]\n\n", strings.Join(pn, ", "))
	b.WriteString("/-- (function, event sequence of each return path; deferred calls where they run) -/\ndef funcs : List (String × List (List Ev)) := [\n")
	for i, f := range fns {
		var ps []string
		for _, p := range f.paths {
			var es []string
			for _, e := range p {
				es = append(es, "."+e)
			}
			ps = append(ps, "["+strings.Join(es, ", ")+"]")
		}
		sep := ","
		if i == len(fns)-1 {
			sep = ""
		}
		fmt.Fprintf(&b, "  (%s, [%s])%s\n", prLeanStr(f.name), strings.Join(ps, ",\n    "), sep)
	}
	b.WriteString("]\n\n")
	fmt.Fprintf(&b, "/-- `Get` / `Put` calls on a pool that the path enumeration did not consume -/\ndef stray : Nat := %d\n\n", total-consumed)
	b.WriteString("end GqlgenVerif.Gen.PostPool\n")
	return b.String(), nil
}
