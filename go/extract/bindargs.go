package main

import (
	"bytes"
	"fmt"
	"go/ast"
	"go/parser"
	"go/printer"
	"go/token"
	"path/filepath"
	"strings"
)

// BindArgs (property C02, hand-over of the coerced arguments to a field bound to a METHOD of a hand-written model):
// translates codegen/args.go `bindArgs` (which GraphQL argument each Go parameter of the method is given: the outer
// loop over the parameters, the inner loop over the field's arguments, the match condition, the expression that is
// appended, the variadic guard) and the key expression of codegen/field.go `CallArgs` (`fc.Args[<key>]`) into Lean
// definitions. Only the expressions are translated; the statement skeleton around them must be exactly the one
// known here, otherwise the extractor fails (broken tie).
func init() { extractors["BindArgs"] = extractBindArgs }

func srcOf(fset *token.FileSet, n ast.Node) string {
	var b bytes.Buffer
	printer.Fprint(&b, fset, n)
	return strings.Join(strings.Fields(b.String()), " ")
}

type baTr struct {
	fset *token.FileSet
}

// nat / bool expressions of bindArgs
func (t baTr) expr(e ast.Expr) (string, error) {
	switch x := e.(type) {
	case *ast.ParenExpr:
		s, err := t.expr(x.X)
		return "(" + s + ")", err
	case *ast.BasicLit:
		if x.Kind == token.INT {
			return x.Value, nil
		}
	case *ast.Ident:
		if x.Name == "n" || x.Name == "j" {
			return x.Name, nil
		}
	case *ast.UnaryExpr:
		if x.Op == token.NOT {
			s, err := t.expr(x.X)
			return "(!" + s + ")", err
		}
	case *ast.BinaryExpr:
		a, err := t.expr(x.X)
		if err != nil {
			return "", err
		}
		b, err := t.expr(x.Y)
		if err != nil {
			return "", err
		}
		switch x.Op {
		case token.LAND:
			return "(" + a + " && " + b + ")", nil
		case token.LOR:
			return "(" + a + " || " + b + ")", nil
		case token.GTR, token.LSS, token.GEQ, token.LEQ:
			return "decide (" + a + " " + x.Op.String() + " " + b + ")", nil
		case token.EQL:
			return "decide (" + a + " = " + b + ")", nil
		case token.NEQ:
			return "decide (" + a + " ≠ " + b + ")", nil
		case token.ADD:
			return "(" + a + " + " + b + ")", nil
		}
	case *ast.CallExpr:
		switch srcOf(t.fset, x) {
		case "params.Len()":
			return "params.length", nil
		case "len(field.Args)":
			return "fieldArgs.length", nil
		case "sig.Variadic()":
			return "variadic", nil
		}
	}
	return "", fmt.Errorf("bindArgs: cannot translate expression %q", srcOf(t.fset, e))
}

// string expressions of the match condition
func (t baTr) str(e ast.Expr) (string, error) {
	switch srcOf(t.fset, e) {
	case "oldArg.Name":
		return "(name oldArg)", nil
	case "param.Name()":
		return "param", nil
	}
	if c, ok := e.(*ast.CallExpr); ok && len(c.Args) == 1 {
		f := srcOf(t.fset, c.Fun)
		if f == "strings.ToLower" || f == "strings.ToUpper" {
			s, err := t.str(c.Args[0])
			return "(String." + map[string]string{"strings.ToLower": "toLower", "strings.ToUpper": "toUpper"}[f] + " " + s + ")", err
		}
	}
	return "", fmt.Errorf("bindArgs: cannot translate string expression %q", srcOf(t.fset, e))
}

func (t baTr) cond(e ast.Expr) (string, error) {
	switch x := e.(type) {
	case *ast.CallExpr:
		if srcOf(t.fset, x.Fun) == "strings.EqualFold" && len(x.Args) == 2 {
			a, err := t.str(x.Args[0])
			if err != nil {
				return "", err
			}
			b, err := t.str(x.Args[1])
			return "equalFold " + a + " " + b, err
		}
	case *ast.BinaryExpr:
		if x.Op == token.EQL {
			a, err := t.str(x.X)
			if err != nil {
				return "", err
			}
			b, err := t.str(x.Y)
			return "(" + a + " == " + b + ")", err
		}
	}
	return "", fmt.Errorf("bindArgs: cannot translate match condition %q", srcOf(t.fset, e))
}

// the appended expression: an `Option α` (none = index out of range, a Go panic)
func (t baTr) appended(e ast.Expr) (string, error) {
	if id, ok := e.(*ast.Ident); ok && id.Name == "oldArg" {
		return "some oldArg", nil
	}
	if ix, ok := e.(*ast.IndexExpr); ok && srcOf(t.fset, ix.X) == "field.Args" {
		i, err := t.expr(ix.Index)
		return "fieldArgs[" + i + "]?", err
	}
	return "", fmt.Errorf("bindArgs: cannot translate appended expression %q", srcOf(t.fset, e))
}

func findFunc(f *ast.File, name string) *ast.FuncDecl {
	for _, d := range f.Decls {
		if fd, ok := d.(*ast.FuncDecl); ok && fd.Name.Name == name {
			return fd
		}
	}
	return nil
}

func extractBindArgs(repo string) (string, error) {
	fset := token.NewFileSet()
	t := baTr{fset}
	bad := func(what string, n ast.Node) (string, error) {
		return "", fmt.Errorf("codegen/args.go bindArgs: unexpected %s: %q", what, srcOf(fset, n))
	}
	want := func(n ast.Node, text string) bool { return srcOf(fset, n) == text }

	af, err := parser.ParseFile(fset, filepath.Join(repo, "codegen/args.go"), nil, 0)
	if err != nil {
		return "", err
	}
	fd := findFunc(af, "bindArgs")
	if fd == nil || fd.Body == nil {
		return "", fmt.Errorf("codegen/args.go: func bindArgs not found")
	}
	if got := srcOf(fset, fd.Type); got != "func(field *Field, sig *types.Signature, params *types.Tuple) ([]*FieldArgument, error)" {
		return "", fmt.Errorf("bindArgs: unexpected signature %q", got)
	}
	st := fd.Body.List
	if len(st) != 5 {
		return "", fmt.Errorf("bindArgs: %d top-level statements, expected 5", len(st))
	}
	// 0: n := <expr>
	as0, ok := st[0].(*ast.AssignStmt)
	if !ok || as0.Tok != token.DEFINE || len(as0.Lhs) != 1 || srcOf(fset, as0.Lhs[0]) != "n" || len(as0.Rhs) != 1 {
		return bad("statement 0", st[0])
	}
	nInit, err := t.expr(as0.Rhs[0])
	if err != nil {
		return "", err
	}
	if !want(st[1], "newArgs := make([]*FieldArgument, 0, len(field.Args))") {
		return bad("statement 1", st[1])
	}
	// 2: if <guard> { n = <expr> }
	if2, ok := st[2].(*ast.IfStmt)
	if !ok || if2.Init != nil || if2.Else != nil || len(if2.Body.List) != 1 {
		return bad("statement 2", st[2])
	}
	guard, err := t.expr(if2.Cond)
	if err != nil {
		return "", err
	}
	as2, ok := if2.Body.List[0].(*ast.AssignStmt)
	if !ok || as2.Tok != token.ASSIGN || len(as2.Lhs) != 1 || srcOf(fset, as2.Lhs[0]) != "n" || len(as2.Rhs) != 1 {
		return bad("variadic guard body", if2.Body)
	}
	nGuard, err := t.expr(as2.Rhs[0])
	if err != nil {
		return "", err
	}
	// 3: nextArg: for j := 0; j < n; j++ { … }
	lab, ok := st[3].(*ast.LabeledStmt)
	if !ok || lab.Label.Name != "nextArg" {
		return bad("statement 3", st[3])
	}
	loop, ok := lab.Stmt.(*ast.ForStmt)
	if !ok || loop.Init == nil || loop.Cond == nil || loop.Post == nil ||
		!want(loop.Init, "j := 0") || !want(loop.Cond, "j < n") || !want(loop.Post, "j++") || len(loop.Body.List) != 3 {
		return bad("outer loop", lab.Stmt)
	}
	if !want(loop.Body.List[0], "param := params.At(j)") {
		return bad("outer loop statement 0", loop.Body.List[0])
	}
	rng, ok := loop.Body.List[1].(*ast.RangeStmt)
	if !ok || rng.Tok != token.DEFINE || srcOf(fset, rng.Key) != "_" || rng.Value == nil || srcOf(fset, rng.Value) != "oldArg" ||
		srcOf(fset, rng.X) != "field.Args" || len(rng.Body.List) != 1 {
		return bad("inner loop", loop.Body.List[1])
	}
	ifm, ok := rng.Body.List[0].(*ast.IfStmt)
	if !ok || ifm.Init != nil || ifm.Else != nil || len(ifm.Body.List) != 5 {
		return bad("inner loop body", rng.Body)
	}
	cond, err := t.cond(ifm.Cond)
	if err != nil {
		return "", err
	}
	mb := ifm.Body.List
	if !want(mb[0], "tr, err := b.Binder.TypeReference(oldArg.Type, param.Type())") ||
		!want(mb[1], "if err != nil { return nil, err }") || !want(mb[2], "oldArg.TypeReference = tr") {
		return bad("binding of the parameter's Go type", ifm.Body)
	}
	app, ok := mb[3].(*ast.AssignStmt)
	if !ok || app.Tok != token.ASSIGN || len(app.Lhs) != 1 || srcOf(fset, app.Lhs[0]) != "newArgs" || len(app.Rhs) != 1 {
		return bad("append statement", mb[3])
	}
	call, ok := app.Rhs[0].(*ast.CallExpr)
	if !ok || srcOf(fset, call.Fun) != "append" || len(call.Args) != 2 || srcOf(fset, call.Args[0]) != "newArgs" || call.Ellipsis.IsValid() {
		return bad("append statement", mb[3])
	}
	appended, err := t.appended(call.Args[1])
	if err != nil {
		return "", err
	}
	if !want(mb[4], "continue nextArg") {
		return bad("statement after the append", mb[4])
	}
	if !want(loop.Body.List[2], `return nil, fmt.Errorf("arg %s not in schema", param.Name())`) {
		return bad("no-match statement", loop.Body.List[2])
	}
	if !want(st[4], "return newArgs, nil") {
		return bad("statement 4", st[4])
	}

	// ---- codegen/field.go CallArgs
	ff, err := parser.ParseFile(fset, filepath.Join(repo, "codegen/field.go"), nil, 0)
	if err != nil {
		return "", err
	}
	cd := findFunc(ff, "CallArgs")
	if cd == nil || cd.Body == nil || len(cd.Body.List) != 4 {
		return "", fmt.Errorf("codegen/field.go: func CallArgs not found or not 4 statements")
	}
	badc := func(what string, n ast.Node) (string, error) {
		return "", fmt.Errorf("codegen/field.go CallArgs: unexpected %s: %q", what, srcOf(fset, n))
	}
	cs := cd.Body.List
	if !want(cs[0], "args := make([]string, 0, len(f.Args)+2)") {
		return badc("statement 0", cs[0])
	}
	if !want(cs[1], `if f.IsResolver { args = append(args, "rctx") if !f.Object.Root { args = append(args, "obj") } } else if f.MethodHasContext { args = append(args, "ctx") }`) {
		return badc("context / receiver prefix", cs[1])
	}
	cr, ok := cs[2].(*ast.RangeStmt)
	if !ok || cr.Tok != token.DEFINE || srcOf(fset, cr.Key) != "_" || cr.Value == nil || srcOf(fset, cr.Value) != "arg" ||
		srcOf(fset, cr.X) != "f.Args" || len(cr.Body.List) != 3 {
		return badc("loop over f.Args", cs[2])
	}
	tmp, ok := cr.Body.List[0].(*ast.AssignStmt)
	if !ok || tmp.Tok != token.DEFINE || len(tmp.Lhs) != 1 || srcOf(fset, tmp.Lhs[0]) != "tmp" || len(tmp.Rhs) != 1 {
		return badc("tmp :=", cr.Body.List[0])
	}
	const pre, post = `"fc.Args[" + strconv.Quote(`, `) + "].(" + templates.CurrentImports.LookupType(arg.TypeReference.GO) + ")"`
	ts := srcOf(fset, tmp.Rhs[0])
	if !strings.HasPrefix(ts, pre) || !strings.HasSuffix(ts, post) {
		return badc("tmp :=", cr.Body.List[0])
	}
	var key string
	switch k := ts[len(pre) : len(ts)-len(post)]; k {
	case "arg.Name":
		key = "name arg"
	case "arg.VarName":
		key = "varName arg"
	default:
		return "", fmt.Errorf("CallArgs: cannot translate key expression %q", k)
	}
	ifa, ok := cr.Body.List[1].(*ast.IfStmt)
	if !ok || !want(ifa.Cond, "ok && iface.Empty()") || ifa.Init == nil || !want(ifa.Init, "iface, ok := arg.TypeReference.GO.(*types.Interface)") ||
		len(ifa.Body.List) != 1 || !strings.HasSuffix(srcOf(fset, ifa.Body.List[0]), "}()`, arg.Name, arg.Name, )") ||
		strings.Count(srcOf(fset, ifa.Body.List[0]), `fc.Args["%s"]`) != 2 {
		return badc("empty-interface branch", cr.Body.List[1])
	}
	if !want(cr.Body.List[2], "args = append(args, tmp)") {
		return badc("append", cr.Body.List[2])
	}
	if !want(cs[3], `return strings.Join(args, ", ")`) {
		return badc("return", cs[3])
	}

	var b strings.Builder
	b.WriteString(`/-! codegen/args.go ` + "`bindArgs`" + ` and codegen/field.go ` + "`CallArgs`" + `: which GraphQL argument each parameter of a bound
    method is given. The expressions (initial n, variadic guard, match condition, appended element, key of fc.Args)
    are translated from the source; the statement skeleton was checked by the extractor. Generic in the element
    type: ` + "`name`" + ` = FieldArgument.Name, ` + "`varName`" + ` = FieldArgument.VarName, ` + "`equalFold`" + ` = strings.EqualFold. -/
namespace GqlgenVerif.Gen.BindArgs

/-- inner loop ` + "`for _, oldArg := range field.Args { if <cond> { …; newArgs = append(newArgs, <x>); continue nextArg } }`" + `:
    ` + "`none`" + ` = no argument matched; ` + "`some none`" + ` = the appended expression indexes out of range (a panic) -/
def findArg {α : Type} (name : α → String) (equalFold : String → String → Bool) (fieldArgs : List α) (j : Nat)
    (param : String) : List α → Option (Option α)
  | [] => none
  | oldArg :: rest =>
    if ` + cond + ` then some (` + appended + `)
    else findArg name equalFold fieldArgs j param rest

/-- outer loop ` + "`for j := 0; j < n; j++ { param := params.At(j); …; return nil, err }`" + ` over the first n parameters -/
def outer {α : Type} (name : α → String) (equalFold : String → String → Bool) (fieldArgs : List α) :
    Nat → List String → Option (List α)
  | _, [] => some []
  | j, param :: ps =>
    match findArg name equalFold fieldArgs j param fieldArgs with
    | some (some a) => (outer name equalFold fieldArgs (j + 1) ps).map (a :: ·)
    | _ => none

/-- how many parameters are bound -/
def bound {α : Type} (fieldArgs : List α) (params : List String) (variadic : Bool) : Nat :=
  let n := ` + nInit + `
  if ` + guard + ` then ` + nGuard + ` else n

/-- ` + "`bindArgs`" + `: the field's arguments in the order of the method's parameters (` + "`none`" + `: generation fails) -/
def bindArgs {α : Type} (name : α → String) (equalFold : String → String → Bool) (fieldArgs : List α)
    (params : List String) (variadic : Bool) : Option (List α) :=
  outer name equalFold fieldArgs 0 (params.take (bound fieldArgs params variadic))

/-- ` + "`CallArgs`" + `: the i-th call argument is ` + "`fc.Args[<key of f.Args[i]>]`" + ` -/
def callKey {α : Type} (name varName : α → String) (arg : α) : String := ` + key + `

/-- ` + "`CallArgs`" + `: what precedes the arguments -/
def callPrefix (isResolver root methodHasContext : Bool) : List String :=
  if isResolver then "rctx" :: (if !root then ["obj"] else []) else if methodHasContext then ["ctx"] else []

end GqlgenVerif.Gen.BindArgs
`)
	return b.String(), nil
}
