package main

import (
	"fmt"
	"go/ast"
	"go/parser"
	"go/token"
	"os"
	"path/filepath"
	"sort"
	"strings"
)

// ErrValues (C07): the error values a failing request is answered with. A `*gqlerror.Error` is not an immutable
// sentinel - the library annotates it per request (ErrorOnPath fills in the path of the failing field, presenters
// built on DefaultErrorPresenter edit its extensions) - so whatever produces one must produce a NEW one per failure;
// a value that outlives the request (a package-level variable) carries the first request's annotations into every
// later response, on every server of the process.
//
//	(a) graphql.DefaultRecover: for every `return` the source of the returned error: `fresh <ctor>` (a call of
//	    gqlerror.Errorf / gqlerror.Wrap… / fmt.Errorf / errors.New evaluated by the return, `&gqlerror.Error{…}`,
//	    or a local defined once from one of these), `shared <var>` (a package-level variable), `other`;
//	(b) graphql.DefaultErrorPresenter: the same for its returns, plus `arg` (the error it was given / the
//	    *gqlerror.Error errors.As found in it) and `nilv`;
//	(c) graphql.ErrorOnPath: every store into the error it was given: (field, guard) with guard `ifNil`
//	    (`if e.F == nil { e.F = … }`), `always`, `other`;
//	(d) every package-level variable of the packages a response's errors come from (graphql, graphql/executor,
//	    graphql/errcode, graphql/handler, graphql/handler/transport, graphql/handler/extension) that holds a
//	    *gqlerror.Error / gqlerror.List: declared with such a type, initialised by a gqlerror constructor or a
//	    `gqlerror.Error` literal, or assigned one anywhere in the package.
//
// Fails (broken tie) if DefaultRecover, DefaultErrorPresenter or ErrorOnPath is not found / has no return.
func init() { extractors["ErrValues"] = extractErrValues }

func evParseDir(fset *token.FileSet, dir string) ([]*ast.File, error) {
	pkgs, err := parser.ParseDir(fset, dir, func(fi os.FileInfo) bool { return !strings.HasSuffix(fi.Name(), "_test.go") }, 0)
	if err != nil {
		return nil, err
	}
	var files []*ast.File
	var names []string
	byName := map[string]*ast.File{}
	for _, p := range pkgs {
		if strings.HasSuffix(p.Name, "_test") {
			continue
		}
		for n, f := range p.Files {
			names = append(names, n)
			byName[n] = f
		}
	}
	sort.Strings(names)
	for _, n := range names {
		files = append(files, byName[n])
	}
	return files, nil
}

// evCtor: "" or the constructor that makes a new error value
func evCtor(e ast.Expr) string {
	switch x := e.(type) {
	case *ast.ParenExpr:
		return evCtor(x.X)
	case *ast.CallExpr:
		s := sfSel(x.Fun)
		switch {
		case strings.HasPrefix(s, "gqlerror.") && s != "gqlerror.List":
			return s
		case s == "fmt.Errorf" || s == "errors.New" || s == "errors.Join":
			return s
		}
	case *ast.UnaryExpr:
		if cl, ok := x.X.(*ast.CompositeLit); ok && x.Op == token.AND {
			return "&" + sfSel(cl.Type) + "{}"
		}
	case *ast.CompositeLit:
		return sfSel(x.Type) + "{}"
	}
	return ""
}

func evIsGqlCtor(c string) bool { return strings.Contains(c, "gqlerror.") }

func evMentionsGqlerror(fset *token.FileSet, t ast.Expr) bool {
	return t != nil && strings.Contains(prSrc(fset, t), "gqlerror.")
}

func extractErrValues(repo string) (string, error) {
	fset := token.NewFileSet()
	gfiles, err := evParseDir(fset, filepath.Join(repo, "graphql"))
	if err != nil {
		return "", err
	}
	pkgVars := map[string]bool{}
	for _, f := range gfiles {
		for _, d := range f.Decls {
			if gd, ok := d.(*ast.GenDecl); ok && gd.Tok == token.VAR {
				for _, sp := range gd.Specs {
					for _, n := range sp.(*ast.ValueSpec).Names {
						pkgVars[n.Name] = true
					}
				}
			}
		}
	}
	find := func(name string) *ast.FuncDecl {
		for _, f := range gfiles {
			for _, d := range f.Decls {
				if fd, ok := d.(*ast.FuncDecl); ok && fd.Recv == nil && fd.Name.Name == name && fd.Body != nil {
					return fd
				}
			}
		}
		return nil
	}
	// sources of the returned values of fd; argNames: parameters and locals bound to (parts of) the argument
	returns := func(fd *ast.FuncDecl) ([]string, error) {
		params := map[string]bool{}
		for _, p := range fd.Type.Params.List {
			for _, n := range p.Names {
				params[n.Name] = true
			}
		}
		// locals: how often assigned, and from what
		assigned := map[string][]ast.Expr{}
		declared := map[string]bool{}
		asTargets := map[string]bool{} // locals filled by errors.As(x, &local)
		ast.Inspect(fd.Body, func(n ast.Node) bool {
			switch x := n.(type) {
			case *ast.AssignStmt:
				for i, l := range x.Lhs {
					if id, ok := l.(*ast.Ident); ok && id.Name != "_" {
						if x.Tok == token.DEFINE {
							declared[id.Name] = true
						}
						if len(x.Rhs) == len(x.Lhs) {
							assigned[id.Name] = append(assigned[id.Name], x.Rhs[i])
						} else {
							assigned[id.Name] = append(assigned[id.Name], nil)
						}
					}
				}
			case *ast.DeclStmt:
				if gd, ok := x.Decl.(*ast.GenDecl); ok {
					for _, sp := range gd.Specs {
						if vs, ok := sp.(*ast.ValueSpec); ok {
							for i, n := range vs.Names {
								declared[n.Name] = true
								if i < len(vs.Values) {
									assigned[n.Name] = append(assigned[n.Name], vs.Values[i])
								}
							}
						}
					}
				}
			case *ast.CallExpr:
				if sfSel(x.Fun) == "errors.As" && len(x.Args) == 2 {
					if u, ok := x.Args[1].(*ast.UnaryExpr); ok && u.Op == token.AND {
						if id, ok := u.X.(*ast.Ident); ok {
							if a, ok := x.Args[0].(*ast.Ident); ok && params[a.Name] {
								asTargets[id.Name] = true
							}
						}
					}
				}
			}
			return true
		})
		var out []string
		var classify func(e ast.Expr, depth int) string
		classify = func(e ast.Expr, depth int) string {
			if c := evCtor(e); c != "" {
				return ".fresh " + leanStr(c)
			}
			switch x := e.(type) {
			case *ast.ParenExpr:
				return classify(x.X, depth)
			case *ast.Ident:
				switch {
				case x.Name == "nil":
					return ".nilv"
				case params[x.Name]:
					return ".arg"
				case declared[x.Name]:
					if asTargets[x.Name] && len(assigned[x.Name]) == 0 {
						return ".arg"
					}
					if len(assigned[x.Name]) == 1 && assigned[x.Name][0] != nil && depth < 3 && !asTargets[x.Name] {
						return classify(assigned[x.Name][0], depth+1)
					}
					return ".other " + leanStr("local "+x.Name)
				case pkgVars[x.Name]:
					return ".shared " + leanStr(x.Name)
				}
			case *ast.SelectorExpr:
				if id, ok := x.X.(*ast.Ident); ok && !declared[id.Name] && !params[id.Name] {
					return ".shared " + leanStr(sfSel(x)) // a variable of another package
				}
			}
			return ".other " + leanStr(prSrc(fset, e))
		}
		ast.Inspect(fd.Body, func(n ast.Node) bool {
			if _, ok := n.(*ast.FuncLit); ok {
				return false
			}
			if r, ok := n.(*ast.ReturnStmt); ok {
				if len(r.Results) != 1 {
					out = append(out, ".other "+leanStr(prSrc(fset, r)))
				} else {
					out = append(out, classify(r.Results[0], 0))
				}
			}
			return true
		})
		if len(out) == 0 {
			return nil, fmt.Errorf("%s has no return statement", fd.Name.Name)
		}
		return out, nil
	}
	dr, dp, eop := find("DefaultRecover"), find("DefaultErrorPresenter"), find("ErrorOnPath")
	if dr == nil || dp == nil || eop == nil {
		return "", fmt.Errorf("graphql.DefaultRecover / DefaultErrorPresenter / ErrorOnPath not found")
	}
	drRet, err := returns(dr)
	if err != nil {
		return "", err
	}
	dpRet, err := returns(dp)
	if err != nil {
		return "", err
	}
	// ---- (c) stores of ErrorOnPath into anything but a plain variable
	var writes []string
	var walk func(list []ast.Stmt, guard string, guardSel string)
	walk = func(list []ast.Stmt, guard string, guardSel string) {
		for _, st := range list {
			switch x := st.(type) {
			case *ast.IfStmt:
				g, gs := "other", ""
				if guard == "always" {
					g = "always" // an `if` that does not test the stored field does not guard the store
				}
				if be, ok := x.Cond.(*ast.BinaryExpr); ok && be.Op == token.EQL {
					if id, ok := be.Y.(*ast.Ident); ok && id.Name == "nil" {
						if _, isSel := be.X.(*ast.SelectorExpr); isSel {
							g, gs = "ifNil", sfSel(be.X)
						}
					}
				}
				if gs == "" {
					gs = guardSel
					if guard != "always" {
						g = guard
					}
				}
				walk(x.Body.List, g, gs)
				if x.Else != nil {
					if b, ok := x.Else.(*ast.BlockStmt); ok {
						walk(b.List, "other", "")
					} else {
						walk([]ast.Stmt{x.Else}, "other", "")
					}
				}
			case *ast.BlockStmt:
				walk(x.List, guard, guardSel)
			case *ast.AssignStmt:
				for _, l := range x.Lhs {
					if sel, ok := l.(*ast.SelectorExpr); ok {
						g := guard
						if g == "ifNil" && guardSel != sfSel(sel) {
							g = "other"
						}
						writes = append(writes, fmt.Sprintf("(%s, .%s)", leanStr(sel.Sel.Name), g))
					} else if _, ok := l.(*ast.Ident); !ok {
						writes = append(writes, fmt.Sprintf("(%s, .other)", leanStr(prSrc(fset, l))))
					}
				}
			case *ast.IncDecStmt:
				if _, ok := x.X.(*ast.Ident); !ok {
					writes = append(writes, fmt.Sprintf("(%s, .other)", leanStr(prSrc(fset, x.X))))
				}
			case *ast.ForStmt, *ast.RangeStmt, *ast.SwitchStmt, *ast.TypeSwitchStmt, *ast.SelectStmt:
				ast.Inspect(x, func(n ast.Node) bool {
					if as, ok := n.(*ast.AssignStmt); ok {
						for _, l := range as.Lhs {
							if _, ok := l.(*ast.Ident); !ok {
								writes = append(writes, fmt.Sprintf("(%s, .other)", leanStr(prSrc(fset, l))))
							}
						}
					}
					return true
				})
			}
		}
	}
	walk(eop.Body.List, "always", "")
	// ---- (d) package-level *gqlerror.Error values
	var pkgErrs []string
	for _, rel := range []string{"graphql", "graphql/executor", "graphql/errcode", "graphql/handler", "graphql/handler/transport", "graphql/handler/extension"} {
		files, err := evParseDir(fset, filepath.Join(repo, filepath.FromSlash(rel)))
		if err != nil {
			return "", err
		}
		vars := map[string]bool{}
		for _, f := range files {
			for _, d := range f.Decls {
				gd, ok := d.(*ast.GenDecl)
				if !ok || gd.Tok != token.VAR {
					continue
				}
				for _, sp := range gd.Specs {
					vs := sp.(*ast.ValueSpec)
					for i, n := range vs.Names {
						vars[n.Name] = true
						how := ""
						if evMentionsGqlerror(fset, vs.Type) {
							how = "declared " + prSrc(fset, vs.Type)
						}
						if i < len(vs.Values) {
							if c := evCtor(vs.Values[i]); evIsGqlCtor(c) {
								how = "initialised by " + c
							}
						}
						if how != "" {
							pkgErrs = append(pkgErrs, fmt.Sprintf("(%s, %s, %s)", leanStr(rel), leanStr(n.Name), leanStr(how)))
						}
					}
				}
			}
		}
		for _, f := range files {
			for _, d := range f.Decls {
				fd, ok := d.(*ast.FuncDecl)
				if !ok || fd.Body == nil {
					continue
				}
				local := map[string]bool{}
				if fd.Recv != nil {
					for _, p := range fd.Recv.List {
						for _, n := range p.Names {
							local[n.Name] = true
						}
					}
				}
				for _, p := range fd.Type.Params.List {
					for _, n := range p.Names {
						local[n.Name] = true
					}
				}
				if fd.Type.Results != nil {
					for _, p := range fd.Type.Results.List {
						for _, n := range p.Names {
							local[n.Name] = true
						}
					}
				}
				ast.Inspect(fd.Body, func(n ast.Node) bool {
					switch x := n.(type) {
					case *ast.AssignStmt:
						if x.Tok == token.DEFINE {
							for _, l := range x.Lhs {
								if id, ok := l.(*ast.Ident); ok {
									local[id.Name] = true
								}
							}
						}
					case *ast.DeclStmt:
						if gd, ok := x.Decl.(*ast.GenDecl); ok {
							for _, sp := range gd.Specs {
								if vs, ok := sp.(*ast.ValueSpec); ok {
									for _, n := range vs.Names {
										local[n.Name] = true
									}
								}
							}
						}
					case *ast.RangeStmt:
						for _, e := range []ast.Expr{x.Key, x.Value} {
							if id, ok := e.(*ast.Ident); ok && x.Tok == token.DEFINE {
								local[id.Name] = true
							}
						}
					}
					return true
				})
				ast.Inspect(fd.Body, func(n ast.Node) bool {
					as, ok := n.(*ast.AssignStmt)
					if !ok || as.Tok == token.DEFINE || len(as.Lhs) != len(as.Rhs) {
						return true
					}
					for i, l := range as.Lhs {
						id, ok := l.(*ast.Ident)
						if !ok || local[id.Name] || !vars[id.Name] {
							continue
						}
						if c := evCtor(as.Rhs[i]); evIsGqlCtor(c) {
							pkgErrs = append(pkgErrs, fmt.Sprintf("(%s, %s, %s)", leanStr(rel), leanStr(id.Name), leanStr("assigned "+c+" in "+fd.Name.Name)))
						}
					}
					return true
				})
			}
		}
	}
	var b strings.Builder
	b.WriteString("import GqlgenVerif.Model.ErrHeap\n\nnamespace GqlgenVerif.Gen.ErrValues\nopen GqlgenVerif.ErrHeap\n\n")
	fmt.Fprintf(&b, "/-- graphql/recovery.go DefaultRecover: where the error of every `return` comes from -/\ndef defaultRecoverReturns : List Source := [%s]\n\n", strings.Join(drRet, ", "))
	fmt.Fprintf(&b, "/-- graphql/error.go DefaultErrorPresenter: where the error of every `return` comes from -/\ndef defaultPresenterReturns : List Source := [%s]\n\n", strings.Join(dpRet, ", "))
	fmt.Fprintf(&b, "/-- graphql/error.go ErrorOnPath: every store into the error it was given (field, guard) -/\ndef errorOnPathWrites : List (String × Guard) := [%s]\n\n", strings.Join(writes, ", "))
	b.WriteString("/-- the guard under which ErrorOnPath stores the path of the failing field -/\ndef errorOnPathGuard : Guard := ((errorOnPathWrites.find? fun w => w.1 == \"Path\").map (·.2)).getD .other\n\n")
	fmt.Fprintf(&b, "/-- package-level variables that hold a *gqlerror.Error / gqlerror.List: (package, variable, how) -/\ndef pkgLevelGqlErrors : List (String × String × String) := [%s]\n\n", strings.Join(pkgErrs, ", "))
	b.WriteString("end GqlgenVerif.Gen.ErrValues\n")
	return b.String(), nil
}
