package main

import (
	"fmt"
	"go/ast"
	"go/parser"
	"go/token"
	"net/http"
	"path/filepath"
	"strconv"
	"strings"
)

// HttpStatus (property C09): the status / content-type deciding tables of the HTTP transports, translated
// from source on every run:
//
//	graphql/errcode/codes.go                   ErrorKind constants, code strings, the codeType map literal
//	graphql/handler/transport/http_get.go      statusFor, statusForGraphQLResponse (switch on GetErrorKind),
//	                                           the `op.Operation != ast.Query` guard of GET.Do and its status
//	graphql/handler/transport/headers.go       the two media type constants and determineResponseContentType
//	                                           (explicit header loop, empty-Accept answer, switch cases, a `default:`
//	                                           arm of the switch, the final return)
//	graphql/executor/executor.go               the code carried by the error each refusal exit returns (httpgate.go)
//
// The translation is of what is there: a missing guard is translated as "refuses nothing", a missing
// explicit-header loop as "explicit headers do not win" - the theorems of Props/C09.lean then stop closing.
// Shapes the translator does not know make it fail (reported as a broken tie).

func init() { extractors["HttpStatus"] = extractHttpStatus }

var httpStatusConst = map[string]int{
	"StatusOK": http.StatusOK, "StatusCreated": http.StatusCreated, "StatusAccepted": http.StatusAccepted,
	"StatusNoContent": http.StatusNoContent, "StatusMultipleChoices": http.StatusMultipleChoices,
	"StatusMovedPermanently": http.StatusMovedPermanently, "StatusFound": http.StatusFound,
	"StatusNotModified": http.StatusNotModified, "StatusBadRequest": http.StatusBadRequest,
	"StatusUnauthorized": http.StatusUnauthorized, "StatusForbidden": http.StatusForbidden,
	"StatusNotFound": http.StatusNotFound, "StatusMethodNotAllowed": http.StatusMethodNotAllowed,
	"StatusNotAcceptable": http.StatusNotAcceptable, "StatusRequestTimeout": http.StatusRequestTimeout,
	"StatusConflict": http.StatusConflict, "StatusGone": http.StatusGone,
	"StatusRequestEntityTooLarge": http.StatusRequestEntityTooLarge,
	"StatusUnsupportedMediaType":  http.StatusUnsupportedMediaType,
	"StatusUnprocessableEntity":   http.StatusUnprocessableEntity,
	"StatusTooManyRequests":       http.StatusTooManyRequests,
	"StatusInternalServerError":   http.StatusInternalServerError,
	"StatusNotImplemented":        http.StatusNotImplemented, "StatusBadGateway": http.StatusBadGateway,
	"StatusServiceUnavailable": http.StatusServiceUnavailable, "StatusTeapot": http.StatusTeapot,
}

type hx struct {
	fset *token.FileSet
	errs []string
}

func (x *hx) fail(n ast.Node, f string, a ...any) string {
	x.errs = append(x.errs, fmt.Sprintf("%s: ", x.fset.Position(n.Pos()))+fmt.Sprintf(f, a...))
	return "?"
}

// status translates `http.StatusX` or an integer literal.
func (x *hx) status(e ast.Expr) string {
	switch e := e.(type) {
	case *ast.BasicLit:
		if e.Kind == token.INT {
			return e.Value
		}
	case *ast.SelectorExpr:
		if id, ok := e.X.(*ast.Ident); ok && id.Name == "http" {
			if v, ok := httpStatusConst[e.Sel.Name]; ok {
				return strconv.Itoa(v)
			}
		}
	}
	return x.fail(e, "untranslatable status expression")
}

func funcDecl(f *ast.File, recv, name string) *ast.FuncDecl {
	for _, d := range f.Decls {
		fd, ok := d.(*ast.FuncDecl)
		if !ok || fd.Name.Name != name {
			continue
		}
		if recv == "" && fd.Recv == nil {
			return fd
		}
		if recv != "" && fd.Recv != nil && len(fd.Recv.List) == 1 {
			t := fd.Recv.List[0].Type
			if s, ok := t.(*ast.StarExpr); ok {
				t = s.X
			}
			if id, ok := t.(*ast.Ident); ok && id.Name == recv {
				return fd
			}
		}
	}
	return nil
}

func sel(e ast.Expr, pkg string) (string, bool) {
	s, ok := e.(*ast.SelectorExpr)
	if !ok {
		return "", false
	}
	id, ok := s.X.(*ast.Ident)
	if !ok || id.Name != pkg {
		return "", false
	}
	return s.Sel.Name, true
}

// statusSwitch translates
//
//	switch errcode.GetErrorKind(errs) { case errcode.KindX: return http.StatusY ... default: return http.StatusZ }
func (x *hx) statusSwitch(fd *ast.FuncDecl, kinds map[string]bool) string {
	if fd == nil {
		x.errs = append(x.errs, "status function not found")
		return "?"
	}
	if len(fd.Body.List) != 1 {
		return x.fail(fd, "%s: body is not a single switch", fd.Name.Name)
	}
	sw, ok := fd.Body.List[0].(*ast.SwitchStmt)
	if !ok || sw.Init != nil {
		return x.fail(fd, "%s: body is not a switch", fd.Name.Name)
	}
	call, ok := sw.Tag.(*ast.CallExpr)
	if !ok {
		return x.fail(sw, "switch tag is not errcode.GetErrorKind(errs)")
	}
	if n, ok := sel(call.Fun, "errcode"); !ok || n != "GetErrorKind" {
		return x.fail(sw, "switch tag is not errcode.GetErrorKind(errs)")
	}
	var b strings.Builder
	b.WriteString("  match k with\n")
	def := ""
	for _, c := range sw.Body.List {
		cc := c.(*ast.CaseClause)
		if len(cc.Body) != 1 {
			return x.fail(cc, "case body is not a single return")
		}
		ret, ok := cc.Body[0].(*ast.ReturnStmt)
		if !ok || len(ret.Results) != 1 {
			return x.fail(cc, "case body is not a single return")
		}
		st := x.status(ret.Results[0])
		if cc.List == nil {
			def = st
			continue
		}
		for _, e := range cc.List {
			n, ok := sel(e, "errcode")
			if !ok || !kinds[n] {
				return x.fail(e, "case label is not an errcode kind")
			}
			fmt.Fprintf(&b, "  | .%s => %s\n", n, st)
		}
	}
	if def == "" {
		return x.fail(sw, "switch without default")
	}
	fmt.Fprintf(&b, "  | _ => %s\n", def)
	return b.String()
}

// guard translates a boolean expression over `<x>.Operation ==/!= ast.Query|Mutation|Subscription`.
func (x *hx) guard(e ast.Expr) (string, bool) {
	switch e := e.(type) {
	case *ast.ParenExpr:
		s, ok := x.guard(e.X)
		return "(" + s + ")", ok
	case *ast.UnaryExpr:
		if e.Op == token.NOT {
			s, ok := x.guard(e.X)
			return "(!" + s + ")", ok
		}
	case *ast.BinaryExpr:
		switch e.Op {
		case token.LAND, token.LOR:
			l, ok1 := x.guard(e.X)
			r, ok2 := x.guard(e.Y)
			op := " && "
			if e.Op == token.LOR {
				op = " || "
			}
			return "(" + l + op + r + ")", ok1 && ok2
		case token.EQL, token.NEQ:
			l, r := e.X, e.Y
			if _, ok := sel(l, "ast"); ok {
				l, r = r, l
			}
			ls, ok := l.(*ast.SelectorExpr)
			if !ok || ls.Sel.Name != "Operation" {
				return "", false
			}
			n, ok := sel(r, "ast")
			if !ok || (n != "Query" && n != "Mutation" && n != "Subscription") {
				return "", false
			}
			if e.Op == token.EQL {
				return "(k == .ast" + n + ")", true
			}
			return "(k != .ast" + n + ")", true
		}
	}
	return "", false
}

func strLit(e ast.Expr) (string, bool) {
	l, ok := e.(*ast.BasicLit)
	if !ok || l.Kind != token.STRING {
		return "", false
	}
	s, err := strconv.Unquote(l.Value)
	return s, err == nil
}

func extractHttpStatus(repo string) (string, error) {
	fset := token.NewFileSet()
	x := &hx{fset: fset}
	parse := func(rel string) (*ast.File, error) {
		return parser.ParseFile(fset, filepath.Join(repo, rel), nil, 0)
	}
	var b strings.Builder
	b.WriteString("namespace GqlgenVerif.Gen.HttpStatus\n\n")
	b.WriteString("/-- gqlparser `ast.Operation` constants the GET guard compares against -/\ninductive AstOp | astQuery | astMutation | astSubscription\n  deriving DecidableEq, Repr\n\n")

	// ---- errcode
	ec, err := parse("graphql/errcode/codes.go")
	if err != nil {
		return "", err
	}
	strConsts := map[string]string{}
	var kindNames []string
	kindSet := map[string]bool{}
	var table [][2]string
	for _, d := range ec.Decls {
		gd, ok := d.(*ast.GenDecl)
		if !ok {
			continue
		}
		for _, sp := range gd.Specs {
			vs, ok := sp.(*ast.ValueSpec)
			if !ok {
				continue
			}
			if gd.Tok == token.CONST {
				for i, n := range vs.Names {
					if i < len(vs.Values) {
						if s, ok := strLit(vs.Values[i]); ok {
							strConsts[n.Name] = s
							continue
						}
					}
					if strings.HasPrefix(n.Name, "Kind") {
						kindNames = append(kindNames, n.Name)
						kindSet[n.Name] = true
					}
				}
			}
			if gd.Tok == token.VAR && len(vs.Names) == 1 && vs.Names[0].Name == "codeType" && len(vs.Values) == 1 {
				cl, ok := vs.Values[0].(*ast.CompositeLit)
				if !ok {
					return "", fmt.Errorf("errcode.codeType is not a map literal")
				}
				for _, el := range cl.Elts {
					kv := el.(*ast.KeyValueExpr)
					kid, ok1 := kv.Key.(*ast.Ident)
					vid, ok2 := kv.Value.(*ast.Ident)
					if !ok1 || !ok2 {
						return "", fmt.Errorf("errcode.codeType entry is not ident: ident")
					}
					table = append(table, [2]string{kid.Name, vid.Name})
				}
			}
		}
	}
	if len(kindNames) == 0 || !kindSet["KindUser"] {
		return "", fmt.Errorf("errcode: ErrorKind constants not found (need KindUser)")
	}
	fmt.Fprintf(&b, "/-- errcode.ErrorKind -/\ninductive ErrorKind | %s\n  deriving DecidableEq, Repr\n\n", strings.Join(kindNames, " | "))
	for _, n := range []string{"ValidationFailed", "ParseFailed"} {
		v, ok := strConsts[n]
		if !ok {
			return "", fmt.Errorf("errcode.%s not found", n)
		}
		fmt.Fprintf(&b, "def %s : String := %q\n", n, v)
	}
	b.WriteString("\n/-- errcode.codeType as initialised (RegisterErrorType can extend it at run time: not modelled) -/\ndef codeType : List (String × ErrorKind) := [")
	for i, t := range table {
		if _, ok := strConsts[t[0]]; !ok || !kindSet[t[1]] {
			return "", fmt.Errorf("errcode.codeType entry %s: %s not understood", t[0], t[1])
		}
		if i > 0 {
			b.WriteString(", ")
		}
		fmt.Fprintf(&b, "(%q, .%s)", strConsts[t[0]], t[1])
	}
	b.WriteString("]\n\n")
	// GetErrorKind: shape check only (first error whose code maps to a kind != KindUser, default KindUser)
	if gk := funcDecl(ec, "", "GetErrorKind"); gk == nil || len(gk.Body.List) != 2 {
		return "", fmt.Errorf("errcode.GetErrorKind: expected `for … { … } return KindUser`")
	} else {
		ret, ok := gk.Body.List[1].(*ast.ReturnStmt)
		if !ok || len(ret.Results) != 1 {
			return "", fmt.Errorf("errcode.GetErrorKind: last statement is not a return")
		}
		id, ok := ret.Results[0].(*ast.Ident)
		if !ok || !kindSet[id.Name] {
			return "", fmt.Errorf("errcode.GetErrorKind: default is not a kind")
		}
		fmt.Fprintf(&b, "/-- what GetErrorKind answers when no error carries a mapped non-user code -/\ndef defaultKind : ErrorKind := .%s\n\n", id.Name)
	}

	// ---- statusFor / statusForGraphQLResponse / GET guard
	get, err := parse("graphql/handler/transport/http_get.go")
	if err != nil {
		return "", err
	}
	for _, n := range []string{"statusFor", "statusForGraphQLResponse"} {
		fmt.Fprintf(&b, "def %s (k : ErrorKind) : Nat :=\n%s\n", n, x.statusSwitch(funcDecl(get, "", n), kindSet))
	}
	do := funcDecl(get, "GET", "Do")
	if do == nil {
		return "", fmt.Errorf("GET.Do not found")
	}
	refuses, refStatus := "false", "0"
	nguards := 0
	ast.Inspect(do.Body, func(n ast.Node) bool {
		is, ok := n.(*ast.IfStmt)
		if !ok {
			return true
		}
		g, ok := x.guard(is.Cond)
		if !ok {
			return true
		}
		nguards++
		refuses = g
		// the guard body must set a status and return without dispatching
		st := ""
		dispatches := false
		returns := false
		ast.Inspect(is.Body, func(m ast.Node) bool {
			switch m := m.(type) {
			case *ast.CallExpr:
				if s, ok := m.Fun.(*ast.SelectorExpr); ok {
					if s.Sel.Name == "WriteHeader" && len(m.Args) == 1 {
						st = x.status(m.Args[0])
					}
					if s.Sel.Name == "DispatchOperation" {
						dispatches = true
					}
				}
			case *ast.ReturnStmt:
				returns = true
			}
			return true
		})
		if st == "" || dispatches || !returns || is.Else != nil {
			x.fail(is, "GET guard body is not `WriteHeader(status); …; return`")
		}
		refStatus = st
		return false
	})
	if nguards > 1 {
		return "", fmt.Errorf("GET.Do: %d operation-kind guards, expected at most one", nguards)
	}
	fmt.Fprintf(&b, "/-- GET.Do: operation kinds refused before DispatchOperation (%d guard(s) found in source) -/\ndef getRefuses (k : AstOp) : Bool := %s\ndef getRefusedStatus : Nat := %s\n\n", nguards, refuses, refStatus)

	// ---- determineResponseContentType
	hd, err := parse("graphql/handler/transport/headers.go")
	if err != nil {
		return "", err
	}
	mt := map[string]string{}
	for _, d := range hd.Decls {
		gd, ok := d.(*ast.GenDecl)
		if !ok || gd.Tok != token.CONST {
			continue
		}
		for _, sp := range gd.Specs {
			vs := sp.(*ast.ValueSpec)
			for i, n := range vs.Names {
				if i < len(vs.Values) {
					if s, ok := strLit(vs.Values[i]); ok {
						mt[n.Name] = s
					}
				}
			}
		}
	}
	for _, n := range []string{"acceptApplicationJson", "acceptApplicationGraphqlResponseJson"} {
		if _, ok := mt[n]; !ok {
			return "", fmt.Errorf("headers.go: const %s not found", n)
		}
		fmt.Fprintf(&b, "def %s : String := %q\n", n, mt[n])
	}
	b.WriteString("\n")
	retVal := func(s ast.Stmt) (string, bool) {
		r, ok := s.(*ast.ReturnStmt)
		if !ok || len(r.Results) != 1 {
			return "", false
		}
		if id, ok := r.Results[0].(*ast.Ident); ok {
			if _, ok := mt[id.Name]; ok {
				return id.Name, true
			}
		}
		if s, ok := strLit(r.Results[0]); ok {
			return strconv.Quote(s), true
		}
		return "", false
	}
	fd := funcDecl(hd, "", "determineResponseContentType")
	if fd == nil {
		return "", fmt.Errorf("determineResponseContentType not found")
	}
	explicitWins, emptyAccept, def, swDefault := "false", "none", "", "none"
	var cases []string
	sawLoop := false
	for _, s := range fd.Body.List {
		switch s := s.(type) {
		case *ast.RangeStmt:
			if id, ok := s.X.(*ast.Ident); ok && id.Name == "explicitHeaders" {
				// for k, v := range explicitHeaders { if strings.EqualFold(k, "Content-Type") { return v[0] } }
				okShape := false
				if len(s.Body.List) == 1 {
					if is, ok := s.Body.List[0].(*ast.IfStmt); ok && len(is.Body.List) == 1 {
						if c, ok := is.Cond.(*ast.CallExpr); ok && len(c.Args) == 2 {
							if n, ok := sel(c.Fun, "strings"); ok && n == "EqualFold" {
								if lit, ok := strLit(c.Args[1]); ok && lit == "Content-Type" {
									if r, ok := is.Body.List[0].(*ast.ReturnStmt); ok && len(r.Results) == 1 {
										if ix, ok := r.Results[0].(*ast.IndexExpr); ok {
											if l, ok := ix.Index.(*ast.BasicLit); ok && l.Value == "0" {
												okShape = true
											}
										}
									}
								}
							}
						}
					}
				}
				if !okShape || sawLoop || emptyAccept != "none" {
					x.fail(s, "explicit header loop has an unknown shape or position")
				}
				explicitWins = "true"
				continue
			}
			// for _, acceptPart := range strings.Split(accept, ",") { parse; if err != nil { continue }; switch mediaType {…} }
			if sawLoop || len(s.Body.List) != 3 {
				x.fail(s, "accept loop has an unknown shape")
				continue
			}
			sawLoop = true
			if c, ok := s.X.(*ast.CallExpr); !ok || len(c.Args) != 2 {
				x.fail(s, "accept loop does not range over strings.Split(accept, \",\")")
			} else if sep, _ := strLit(c.Args[1]); sep != "," {
				x.fail(s, "accept loop does not split on \",\"")
			}
			as, ok := s.Body.List[0].(*ast.AssignStmt)
			if !ok || len(as.Rhs) != 1 {
				x.fail(s, "accept loop: first statement is not the media type parse")
			} else if c, ok := as.Rhs[0].(*ast.CallExpr); !ok {
				x.fail(s, "accept loop: first statement is not the media type parse")
			} else if n, ok := sel(c.Fun, "mime"); !ok || n != "ParseMediaType" {
				x.fail(s, "accept loop: media type not parsed with mime.ParseMediaType")
			}
			if is, ok := s.Body.List[1].(*ast.IfStmt); !ok || len(is.Body.List) != 1 {
				x.fail(s, "accept loop: second statement is not `if err != nil { continue }`")
			} else if br, ok := is.Body.List[0].(*ast.BranchStmt); !ok || br.Tok != token.CONTINUE {
				x.fail(s, "accept loop: second statement is not `if err != nil { continue }`")
			}
			sw, ok := s.Body.List[2].(*ast.SwitchStmt)
			if !ok {
				x.fail(s, "accept loop: third statement is not a switch")
				continue
			}
			for _, c := range sw.Body.List {
				cc := c.(*ast.CaseClause)
				if len(cc.Body) != 1 {
					x.fail(cc, "accept switch: multi-statement case")
					continue
				}
				if cc.List == nil {
					// a `default:` arm INSIDE the loop answers at the first media range no case knows
					rv, ok := retVal(cc.Body[0])
					if !ok || swDefault != "none" {
						x.fail(cc, "accept switch: default clause does not return a media type constant")
						continue
					}
					swDefault = "(some " + rv + ")"
					continue
				}
				rv, ok := retVal(cc.Body[0])
				if !ok {
					x.fail(cc, "accept switch: case does not return a media type constant")
					continue
				}
				var ls []string
				for _, e := range cc.List {
					l, ok := strLit(e)
					if !ok {
						x.fail(e, "accept switch: case label is not a string literal")
					}
					ls = append(ls, strconv.Quote(l))
				}
				cases = append(cases, "(["+strings.Join(ls, ", ")+"], "+rv+")")
			}
		case *ast.AssignStmt: // accept := r.Header.Get("Accept")
			ok := false
			if len(s.Rhs) == 1 {
				if c, isCall := s.Rhs[0].(*ast.CallExpr); isCall && len(c.Args) == 1 {
					if l, _ := strLit(c.Args[0]); l == "Accept" {
						ok = true
					}
				}
			}
			if !ok {
				x.fail(s, "unknown assignment (expected accept := r.Header.Get(\"Accept\"))")
			}
		case *ast.IfStmt: // if accept == "" { return X }
			be, ok := s.Cond.(*ast.BinaryExpr)
			okShape := ok && be.Op == token.EQL && len(s.Body.List) == 1 && s.Else == nil && !sawLoop
			if okShape {
				if l, isLit := strLit(be.Y); !isLit || l != "" {
					okShape = false
				}
			}
			if !okShape {
				x.fail(s, "unknown if statement (expected `if accept == \"\" { return … }` before the loop)")
				continue
			}
			rv, ok := retVal(s.Body.List[0])
			if !ok {
				x.fail(s, "empty-accept branch does not return a media type constant")
			}
			emptyAccept = "(some " + rv + ")"
		case *ast.ReturnStmt:
			rv, ok := retVal(s)
			if !ok {
				x.fail(s, "final return is not a media type constant")
			}
			def = rv
		default:
			x.fail(s, "unknown statement %T in determineResponseContentType", s)
		}
	}
	if def == "" {
		return "", fmt.Errorf("determineResponseContentType: no final return")
	}
	fmt.Fprintf(&b, "/-- determineResponseContentType: a configured Content-Type (any key spelling) is returned first -/\ndef ctExplicitWins : Bool := %s\n", explicitWins)
	fmt.Fprintf(&b, "/-- answer for an empty/absent Accept header (none: falls into the loop) -/\ndef ctEmptyAccept : Option String := %s\n", emptyAccept)
	fmt.Fprintf(&b, "/-- the switch over the parsed media type of each Accept part, in source order -/\ndef ctCases : List (List String × String) := [%s]\n", strings.Join(cases, ", "))
	fmt.Fprintf(&b, "/-- a `default:` arm of that switch: the answer at the FIRST parsed media type no case lists (none: the loop goes on to the next part) -/\ndef ctSwitchDefault : Option String := %s\n", swDefault)
	fmt.Fprintf(&b, "/-- answer when no Accept part is recognised -/\ndef ctDefault : String := %s\n\n", def)
	// ---- executor: which error value (with which code) each refusal exit returns
	exf, err := parse("graphql/executor/executor.go")
	if err != nil {
		return "", err
	}
	b.WriteString(gateStamps(x, fset, exf, ec, strConsts))
	b.WriteString("\nend GqlgenVerif.Gen.HttpStatus\n")
	if len(x.errs) > 0 {
		return "", fmt.Errorf("%s", strings.Join(x.errs, "; "))
	}
	return b.String(), nil
}
