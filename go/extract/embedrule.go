package main

import (
	"fmt"
	"go/ast"
	"go/parser"
	"go/token"
	"path/filepath"
	"strconv"
	"strings"
)

// EmbedRule (C17): which schema files the generated executor pulls in with `//go:embed` and which it inlines.
//
//	codegen/data.go  func BuildData: the loop `for _, s := range cfg.Sources { … }` that fills AugmentedSources
//	    outputDir := cfg.Exec.Dir()
//	    sourcePath := filepath.Join(wd, s.Name)
//	    relative, err := filepath.Rel(outputDir, sourcePath) …
//	    relative = filepath.ToSlash(relative)
//	    embeddable := E0                       (any sequence of `embeddable := E`, `embeddable = E`,
//	    if C { embeddable = E1 }                `if C { embeddable = E } [else { embeddable = E }]`)
//	    aSources = append(aSources, AugmentedSource{RelativePath: relative, Embeddable: embeddable, …})
//	-> def embeddable (relative sourcePath outputDir : List Nat) (builtIn : Bool) : Bool := <statements translated>
//	   (E, C over strings.HasPrefix / strings.HasSuffix / == / != / ! / && / || on relative, sourcePath, outputDir,
//	   s.BuiltIn, string literals), the expressions the three strings are computed from, and the fields of the literal.
//
// Fails when the loop no longer has that statement shape.
func init() { extractors["EmbedRule"] = extractEmbedRule }

func erCodePoints(s string) string {
	var xs []string
	for _, c := range s {
		xs = append(xs, strconv.Itoa(int(c)))
	}
	return "[" + strings.Join(xs, ", ") + "]"
}

// a string-valued operand
func erStr(fset *token.FileSet, e ast.Expr) (string, error) {
	switch e := e.(type) {
	case *ast.ParenExpr:
		return erStr(fset, e.X)
	case *ast.Ident:
		switch e.Name {
		case "relative", "sourcePath", "outputDir":
			return e.Name, nil
		}
	case *ast.BasicLit:
		if e.Kind == token.STRING {
			s, err := strconv.Unquote(e.Value)
			if err == nil {
				return erCodePoints(s), nil
			}
		}
	}
	return "", fmt.Errorf("BuildData: cannot translate the string operand `%s` of the embeddable decision", pnSrc(fset, e))
}

// a boolean expression of the decision
func erBool(fset *token.FileSet, e ast.Expr) (string, error) {
	switch e := e.(type) {
	case *ast.ParenExpr:
		return erBool(fset, e.X)
	case *ast.Ident:
		switch e.Name {
		case "true", "false", "embeddable":
			return e.Name, nil
		}
	case *ast.SelectorExpr:
		if trSel(e) == "s.BuiltIn" {
			return "builtIn", nil
		}
	case *ast.UnaryExpr:
		if e.Op == token.NOT {
			a, err := erBool(fset, e.X)
			return "(!" + a + ")", err
		}
	case *ast.CallExpr:
		fn := trSel(e.Fun)
		if (fn == "strings.HasPrefix" || fn == "strings.HasSuffix") && len(e.Args) == 2 {
			a, err := erStr(fset, e.Args[0])
			if err != nil {
				return "", err
			}
			b, err := erStr(fset, e.Args[1])
			if err != nil {
				return "", err
			}
			// strings.HasPrefix(s, prefix): prefix is a prefix of s
			if fn == "strings.HasPrefix" {
				return "(List.isPrefixOf " + b + " " + a + ")", nil
			}
			return "(List.isSuffixOf " + b + " " + a + ")", nil
		}
	case *ast.BinaryExpr:
		switch e.Op {
		case token.LAND, token.LOR:
			a, err := erBool(fset, e.X)
			if err != nil {
				return "", err
			}
			b, err := erBool(fset, e.Y)
			if err != nil {
				return "", err
			}
			return "(" + a + " " + e.Op.String() + " " + b + ")", nil
		case token.EQL, token.NEQ:
			a, err := erStr(fset, e.X)
			if err != nil {
				return "", err
			}
			b, err := erStr(fset, e.Y)
			if err != nil {
				return "", err
			}
			if e.Op == token.EQL {
				return "(" + a + " == " + b + ")", nil
			}
			return "(" + a + " != " + b + ")", nil
		}
	}
	return "", fmt.Errorf("BuildData: cannot translate `%s` in the embeddable decision", pnSrc(fset, e))
}

// `embeddable = E` / `embeddable := E` -> E
func erAssign(fset *token.FileSet, s ast.Stmt) (string, bool, error) {
	as, ok := s.(*ast.AssignStmt)
	if !ok || len(as.Lhs) != 1 || len(as.Rhs) != 1 || trSel(as.Lhs[0]) != "embeddable" {
		return "", false, nil
	}
	e, err := erBool(fset, as.Rhs[0])
	return e, true, err
}

func extractEmbedRule(repo string) (string, error) {
	fset := token.NewFileSet()
	f, err := parser.ParseFile(fset, filepath.Join(repo, "codegen", "data.go"), nil, 0)
	if err != nil {
		return "", err
	}
	var fn *ast.FuncDecl
	for _, d := range f.Decls {
		if fd, ok := d.(*ast.FuncDecl); ok && fd.Name.Name == "BuildData" && fd.Recv == nil {
			fn = fd
		}
	}
	if fn == nil {
		return "", fmt.Errorf("codegen/data.go: func BuildData not found")
	}
	// the loop over cfg.Sources
	var loop *ast.RangeStmt
	ast.Inspect(fn.Body, func(n ast.Node) bool {
		if rs, ok := n.(*ast.RangeStmt); ok && trSel(rs.X) == "cfg.Sources" {
			if loop != nil {
				err = fmt.Errorf("BuildData: more than one loop over cfg.Sources")
			}
			loop = rs
		}
		return true
	})
	if err != nil {
		return "", err
	}
	if loop == nil || trSel(loop.Value) != "s" {
		return "", fmt.Errorf("BuildData: `for _, s := range cfg.Sources` not found")
	}
	exprs := map[string][]string{} // variable -> the expressions assigned to it, in order
	var lets []string
	var literal []string
	seenAppend := false
	for _, st := range loop.Body.List {
		if seenAppend {
			return "", fmt.Errorf("BuildData: statement after the append to aSources: `%s`", pnSrc(fset, st))
		}
		switch st := st.(type) {
		case *ast.AssignStmt:
			if e, ok, err := erAssign(fset, st); ok {
				if err != nil {
					return "", err
				}
				lets = append(lets, "let embeddable : Bool := "+e)
				continue
			}
			if len(st.Rhs) == 1 {
				lhs := trSel(st.Lhs[0])
				if call, ok := st.Rhs[0].(*ast.CallExpr); ok && trSel(call.Fun) == "append" && lhs == "aSources" {
					if len(call.Args) != 2 || trSel(call.Args[0]) != "aSources" {
						return "", fmt.Errorf("BuildData: unexpected append `%s`", pnSrc(fset, st))
					}
					cl, ok := call.Args[1].(*ast.CompositeLit)
					if !ok || trSel(cl.Type) != "AugmentedSource" {
						return "", fmt.Errorf("BuildData: the appended value is not an AugmentedSource literal: `%s`", pnSrc(fset, call.Args[1]))
					}
					for _, el := range cl.Elts {
						kv, ok := el.(*ast.KeyValueExpr)
						if !ok {
							return "", fmt.Errorf("BuildData: unkeyed AugmentedSource literal")
						}
						literal = append(literal, "("+pnLeanStr(trSel(kv.Key))+", "+pnLeanStr(pnSrc(fset, kv.Value))+")")
					}
					seenAppend = true
					continue
				}
				switch lhs {
				case "wd", "outputDir", "sourcePath", "relative":
					if len(lets) > 0 && lhs != "wd" {
						return "", fmt.Errorf("BuildData: `%s` is reassigned after the embeddable decision started", lhs)
					}
					exprs[lhs] = append(exprs[lhs], pnSrc(fset, st.Rhs[0]))
					continue
				}
			}
			return "", fmt.Errorf("BuildData: unexpected assignment in the cfg.Sources loop: `%s`", pnSrc(fset, st))
		case *ast.IfStmt:
			if _, ok := pnErrGuardReturn2(st); ok {
				continue
			}
			if st.Init != nil {
				return "", fmt.Errorf("BuildData: `if` with an init statement in the cfg.Sources loop: `%s`", pnSrc(fset, st.Cond))
			}
			cond, err := erBool(fset, st.Cond)
			if err != nil {
				return "", err
			}
			arm := func(b *ast.BlockStmt) (string, error) {
				if b == nil {
					return "embeddable", nil
				}
				if len(b.List) != 1 {
					return "", fmt.Errorf("BuildData: an arm of `if %s` is not a single assignment to embeddable", pnSrc(fset, st.Cond))
				}
				e, ok, err := erAssign(fset, b.List[0])
				if err != nil {
					return "", err
				}
				if !ok {
					return "", fmt.Errorf("BuildData: an arm of `if %s` is not an assignment to embeddable", pnSrc(fset, st.Cond))
				}
				return e, nil
			}
			th, err := arm(st.Body)
			if err != nil {
				return "", err
			}
			el := "embeddable"
			if st.Else != nil {
				eb, ok := st.Else.(*ast.BlockStmt)
				if !ok {
					return "", fmt.Errorf("BuildData: else-if in the embeddable decision")
				}
				if el, err = arm(eb); err != nil {
					return "", err
				}
			}
			if len(lets) == 0 {
				return "", fmt.Errorf("BuildData: `if %s` assigns embeddable before it is declared", pnSrc(fset, st.Cond))
			}
			lets = append(lets, "let embeddable : Bool := if "+cond+" then "+th+" else "+el)
		default:
			return "", fmt.Errorf("BuildData: unexpected statement in the cfg.Sources loop: `%s`", pnSrc(fset, st))
		}
	}
	if !seenAppend || len(lets) == 0 {
		return "", fmt.Errorf("BuildData: the cfg.Sources loop does not decide `embeddable` and append an AugmentedSource")
	}
	strList := func(xs []string) string {
		qs := make([]string, len(xs))
		for i, x := range xs {
			qs[i] = pnLeanStr(x)
		}
		return "[" + strings.Join(qs, ", ") + "]"
	}
	var b strings.Builder
	b.WriteString("/-! Which schema files the generated executor embeds (`//go:embed`) and which it inlines: the decision of the\n")
	b.WriteString("`cfg.Sources` loop of `codegen.BuildData` (codegen/data.go), translated from the source. Text = list of code points. -/\n")
	b.WriteString("namespace GqlgenVerif.Gen.EmbedRule\nset_option linter.unusedVariables false\n\n")
	b.WriteString("/-- the expressions the strings of the decision are computed from (each in assignment order) -/\n")
	fmt.Fprintf(&b, "def outputDirExprs : List String := %s\n", strList(exprs["outputDir"]))
	fmt.Fprintf(&b, "def sourcePathExprs : List String := %s\n", strList(exprs["sourcePath"]))
	fmt.Fprintf(&b, "def relativeExprs : List String := %s\n", strList(exprs["relative"]))
	fmt.Fprintf(&b, "def wdExprs : List String := %s\n\n", strList(exprs["wd"]))
	b.WriteString("/-- the fields of the appended `AugmentedSource` literal -/\n")
	fmt.Fprintf(&b, "def literalFields : List (String × String) := [%s]\n\n", strings.Join(literal, ", "))
	b.WriteString("/-- the value of `embeddable` when the literal is appended (`strings.HasPrefix(s, p)` = `List.isPrefixOf p s`) -/\n")
	b.WriteString("def embeddable (relative sourcePath outputDir : List Nat) (builtIn : Bool) : Bool :=\n")
	for _, l := range lets {
		b.WriteString("  " + l + "\n")
	}
	b.WriteString("  embeddable\n\nend GqlgenVerif.Gen.EmbedRule\n")
	return b.String(), nil
}

// `if err != nil { return nil, … }`
func pnErrGuardReturn2(is *ast.IfStmt) (ast.Stmt, bool) {
	if is.Init != nil || is.Else != nil || len(is.Body.List) != 1 {
		return nil, false
	}
	be, ok := is.Cond.(*ast.BinaryExpr)
	if !ok || be.Op != token.NEQ || trSel(be.X) != "err" || trSel(be.Y) != "nil" {
		return nil, false
	}
	ret, ok := is.Body.List[0].(*ast.ReturnStmt)
	if !ok {
		return nil, false
	}
	return ret, true
}
