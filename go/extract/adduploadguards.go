package main

import (
	"fmt"
	"go/ast"
	"go/parser"
	"go/token"
	"go/types"
	"io/fs"
	"path/filepath"
	"sort"
	"strings"
)

// AddUploadGuards (C10): which run-time checks does RawParams.AddUpload perform before it indexes
// the client-addressed container?
//
//	arr, ok := ptr.([]any)
//	if !ok || index < 0 || index >= len(arr) { return gqlerror… }
//	… arr[index] …
//
// becomes `def guards : Guards := { assertArr := true, lower := true, upper := true, … }`. A bare
// `ptr.([]any)[index]` yields assertArr/lower/upper := false. The Lean model of the walk is generic in
// Guards; `add_upload_total` is proved for the regenerated instance, so removing a check from the
// source makes the proof fail. The extractor fails when the function no longer has the shape
// "prefix check; range over parts[1:]; nil check; if Atoi ok {slice branch} else {map branch}".
//
// DecodeSites (C10): every `jsonDecode…(r, &params)` into a *graphql.RawParams / graphql.RawParams in the
// transports, with "is a nil result (JSON null) turned into an error before params is used".

func init() {
	extractors["AddUploadGuards"] = extractAddUploadGuards
	extractors["DecodeSites"] = extractDecodeSites
}

func c10str(e ast.Expr) string {
	for {
		p, ok := e.(*ast.ParenExpr)
		if !ok {
			break
		}
		e = p.X
	}
	return types.ExprString(e)
}

func c10disjuncts(e ast.Expr, acc map[string]bool) {
	for {
		p, ok := e.(*ast.ParenExpr)
		if !ok {
			break
		}
		e = p.X
	}
	if b, ok := e.(*ast.BinaryExpr); ok && b.Op == token.LOR {
		c10disjuncts(b.X, acc)
		c10disjuncts(b.Y, acc)
		return
	}
	acc[c10str(e)] = true
}

func c10endsInReturn(b *ast.BlockStmt) bool {
	if b == nil || len(b.List) == 0 {
		return false
	}
	r, ok := b.List[len(b.List)-1].(*ast.ReturnStmt)
	if !ok {
		return false
	}
	// must return something that is not the literal nil (an error value)
	for _, x := range r.Results {
		if id, ok := x.(*ast.Ident); ok && id.Name == "nil" {
			return false
		}
	}
	return len(r.Results) > 0
}

type c10bind struct{ typ, ok string }

type c10branch struct {
	sites                     int
	assert, lower, upper, nnm bool
}

// analyse one branch of the Atoi if: want is "[]any" or "map[string]any", idx the index expression text.
func c10analyse(block *ast.BlockStmt, want, idx string) (c10branch, error) {
	res := c10branch{assert: true, lower: true, upper: true, nnm: true}
	facts := map[string]bool{}
	binds := map[string]c10bind{}
	var err error
	site := func(ie *ast.IndexExpr, isWrite bool) {
		if c10str(ie.Index) != idx {
			err = fmt.Errorf("index expression %s is not %s", c10str(ie.Index), idx)
			return
		}
		base := ie.X
		for {
			p, ok := base.(*ast.ParenExpr)
			if !ok {
				break
			}
			base = p.X
		}
		name := ""
		switch b := base.(type) {
		case *ast.TypeAssertExpr:
			if c10str(b.Type) != want && !(want == "[]any" && c10str(b.Type) == "[]interface{}") && !(want == "map[string]any" && c10str(b.Type) == "map[string]interface{}") {
				err = fmt.Errorf("asserted type %s, expected %s", c10str(b.Type), want)
				return
			}
			res.assert = false
		case *ast.Ident:
			bd, ok := binds[b.Name]
			if !ok {
				err = fmt.Errorf("indexed identifier %s is not bound by a type assertion", b.Name)
				return
			}
			name = b.Name
			if bd.ok == "" || !facts["!"+bd.ok] {
				res.assert = false
			}
		default:
			err = fmt.Errorf("unrecognised indexed expression %s", c10str(base))
			return
		}
		res.sites++
		if want == "[]any" {
			if !(facts[idx+" < 0"] || facts["0 > "+idx]) {
				res.lower = false
			}
			if name == "" || !(facts[idx+" >= len("+name+")"] || facts["len("+name+") <= "+idx]) {
				res.upper = false
			}
		} else if isWrite {
			if name == "" || !(facts[name+" == nil"] || facts["last && "+name+" == nil"] || facts["len("+name+") == 0"]) {
				res.nnm = false
			}
		}
	}
	var visit func(s ast.Stmt, top bool)
	visitExpr := func(e ast.Node, write map[*ast.IndexExpr]bool) {
		ast.Inspect(e, func(n ast.Node) bool {
			if ie, ok := n.(*ast.IndexExpr); ok {
				site(ie, write[ie])
			}
			return true
		})
	}
	visit = func(s ast.Stmt, top bool) {
		switch st := s.(type) {
		case *ast.AssignStmt:
			if len(st.Rhs) == 1 {
				if ta, ok := st.Rhs[0].(*ast.TypeAssertExpr); ok && st.Tok == token.DEFINE {
					t := c10str(ta.Type)
					if t == "[]interface{}" {
						t = "[]any"
					}
					if t == "map[string]interface{}" {
						t = "map[string]any"
					}
					if id, ok := st.Lhs[0].(*ast.Ident); ok && t == want && top {
						bd := c10bind{typ: t}
						if len(st.Lhs) == 2 {
							if okid, ok := st.Lhs[1].(*ast.Ident); ok {
								bd.ok = okid.Name
							}
						} else {
							res.assert = false // single-value assertion panics at the binding
						}
						binds[id.Name] = bd
						return
					}
				}
			}
			w := map[*ast.IndexExpr]bool{}
			for _, l := range st.Lhs {
				if ie, ok := l.(*ast.IndexExpr); ok {
					w[ie] = true
				}
			}
			visitExpr(st, w)
		case *ast.IfStmt:
			if st.Init != nil {
				visit(st.Init, false)
			}
			visitExpr(st.Cond, nil)
			if top && st.Else == nil && c10endsInReturn(st.Body) {
				c10disjuncts(st.Cond, facts)
				return
			}
			for _, b := range st.Body.List {
				visit(b, false)
			}
			switch e := st.Else.(type) {
			case *ast.BlockStmt:
				for _, b := range e.List {
					visit(b, false)
				}
			case *ast.IfStmt:
				visit(e, false)
			}
		case *ast.BlockStmt:
			for _, b := range st.List {
				visit(b, false)
			}
		default:
			visitExpr(s, nil)
		}
	}
	for _, s := range block.List {
		visit(s, true)
		if err != nil {
			return res, err
		}
	}
	if res.sites == 0 {
		return res, fmt.Errorf("no index site on %s found", want)
	}
	return res, nil
}

func extractAddUploadGuards(repo string) (string, error) {
	fset := token.NewFileSet()
	f, err := parser.ParseFile(fset, filepath.Join(repo, "graphql", "handler.go"), nil, 0)
	if err != nil {
		return "", err
	}
	var fn *ast.FuncDecl
	for _, d := range f.Decls {
		if fd, ok := d.(*ast.FuncDecl); ok && fd.Name.Name == "AddUpload" && fd.Recv != nil {
			fn = fd
		}
	}
	if fn == nil || fn.Body == nil {
		return "", fmt.Errorf("RawParams.AddUpload not found")
	}
	// prefix check
	prefixOK := false
	var rng *ast.RangeStmt
	for _, s := range fn.Body.List {
		if is, ok := s.(*ast.IfStmt); ok && c10str(is.Cond) == `!strings.HasPrefix(path, "variables.")` && c10endsInReturn(is.Body) && rng == nil {
			prefixOK = true
		}
		if r, ok := s.(*ast.RangeStmt); ok {
			rng = r
		}
	}
	if !prefixOK {
		return "", fmt.Errorf(`AddUpload: leading "if !strings.HasPrefix(path, \"variables.\") { return err }" not found`)
	}
	if rng == nil || c10str(rng.X) != "parts[1:]" {
		return "", fmt.Errorf("AddUpload: range over parts[1:] not found")
	}
	nilOK := false
	var atoi *ast.IfStmt
	idxVar := ""
	for _, s := range rng.Body.List {
		is, ok := s.(*ast.IfStmt)
		if !ok {
			continue
		}
		if c10str(is.Cond) == "ptr == nil" && c10endsInReturn(is.Body) && atoi == nil {
			nilOK = true
		}
		if as, ok := is.Init.(*ast.AssignStmt); ok && len(as.Rhs) == 1 && len(as.Lhs) == 2 {
			if call, ok := as.Rhs[0].(*ast.CallExpr); ok && c10str(call.Fun) == "strconv.Atoi" {
				errName := c10str(as.Lhs[1])
				if c10str(is.Cond) != errName+" == nil" {
					return "", fmt.Errorf("AddUpload: Atoi branch condition %s not recognised", c10str(is.Cond))
				}
				if len(call.Args) != 1 || c10str(call.Args[0]) != c10str(rng.Value) {
					return "", fmt.Errorf("AddUpload: Atoi is not applied to the range value")
				}
				atoi = is
				idxVar = c10str(as.Lhs[0])
			}
		}
	}
	if !nilOK {
		return "", fmt.Errorf("AddUpload: `if ptr == nil { return err }` before the Atoi branch not found")
	}
	if atoi == nil {
		return "", fmt.Errorf("AddUpload: `if index, err := strconv.Atoi(p); err == nil {…} else {…}` not found")
	}
	els, ok := atoi.Else.(*ast.BlockStmt)
	if !ok {
		return "", fmt.Errorf("AddUpload: Atoi if has no else block")
	}
	a, err := c10analyse(atoi.Body, "[]any", idxVar)
	if err != nil {
		return "", fmt.Errorf("AddUpload slice branch: %v", err)
	}
	m, err := c10analyse(els, "map[string]any", c10str(rng.Value))
	if err != nil {
		return "", fmt.Errorf("AddUpload map branch: %v", err)
	}
	var b strings.Builder
	b.WriteString("import GqlgenVerif.Model.Upload\nnamespace GqlgenVerif.Gen.AddUploadGuards\nopen GqlgenVerif.Upload\n\n")
	fmt.Fprintf(&b, "/-- graphql/handler.go RawParams.AddUpload: %d slice index site(s), %d map index site(s) -/\n", a.sites, m.sites)
	fmt.Fprintf(&b, "def guards : Guards :=\n  { assertArr := %v, lower := %v, upper := %v, assertMap := %v, nilMap := %v }\n", a.assert, a.lower, a.upper, m.assert, m.nnm)
	b.WriteString("\nend GqlgenVerif.Gen.AddUploadGuards\n")
	return b.String(), nil
}

// ---------------------------------------------------------------- DecodeSites

var c10siteNames = map[string]string{
	"POST.Do": "post", "SSE.Do": "sse", "MultipartMixed.Do": "mixed", "UrlEncodedForm.parseJson": "urlencoded",
	"wsConnection.subscribe": "ws", "MultipartForm.Do": "form",
}

func c10recv(fd *ast.FuncDecl) string {
	if fd.Recv == nil || len(fd.Recv.List) == 0 {
		return ""
	}
	t := fd.Recv.List[0].Type
	if s, ok := t.(*ast.StarExpr); ok {
		t = s.X
	}
	return c10str(t)
}

func extractDecodeSites(repo string) (string, error) {
	dir := filepath.Join(repo, "graphql", "handler", "transport")
	fset := token.NewFileSet()
	pkgs, err := parser.ParseDir(fset, dir, func(fi fs.FileInfo) bool {
		return !strings.HasSuffix(fi.Name(), "_test.go") && !strings.HasPrefix(fi.Name(), "verif_")
	}, 0)
	if err != nil {
		return "", err
	}
	var funcs []*ast.FuncDecl
	for _, p := range pkgs {
		var names []string
		for n := range p.Files {
			names = append(names, n)
		}
		sort.Strings(names)
		for _, n := range names {
			for _, d := range p.Files[n].Decls {
				if fd, ok := d.(*ast.FuncDecl); ok && fd.Body != nil {
					funcs = append(funcs, fd)
				}
			}
		}
	}
	// the helper: jsonDecodeParams must turn a nil *params into an error
	helperChecks := false
	helperExists := false
	for _, fd := range funcs {
		if fd.Name.Name == "jsonDecodeParams" && fd.Recv == nil {
			helperExists = true
			for _, s := range fd.Body.List {
				if is, ok := s.(*ast.IfStmt); ok && c10str(is.Cond) == "*params == nil" && c10endsInReturn(is.Body) {
					helperChecks = true
				}
			}
		}
	}
	type siteT struct {
		name   string
		target string
	}
	var sites []siteT
	for _, fd := range funcs {
		// declared kind of local identifiers of RawParams type
		kind := map[string]string{}
		ast.Inspect(fd.Body, func(n ast.Node) bool {
			switch st := n.(type) {
			case *ast.ValueSpec:
				if st.Type != nil {
					t := c10str(st.Type)
					for _, id := range st.Names {
						if t == "*graphql.RawParams" {
							kind[id.Name] = "pointer"
						} else if t == "graphql.RawParams" {
							kind[id.Name] = "value"
						}
					}
				}
			case *ast.AssignStmt:
				if st.Tok == token.DEFINE && len(st.Lhs) == 1 && len(st.Rhs) == 1 {
					id, ok := st.Lhs[0].(*ast.Ident)
					if !ok {
						return true
					}
					switch r := st.Rhs[0].(type) {
					case *ast.UnaryExpr:
						if r.Op == token.AND && strings.HasPrefix(c10str(r.X), "graphql.RawParams{") {
							kind[id.Name] = "pointer"
						}
					case *ast.TypeAssertExpr:
						if c10str(r.Type) == "*graphql.RawParams" {
							kind[id.Name] = "pointer"
						}
					case *ast.CompositeLit:
						if c10str(r.Type) == "graphql.RawParams" {
							kind[id.Name] = "value"
						}
					}
				}
			}
			return true
		})
		var calls []*ast.CallExpr
		ast.Inspect(fd.Body, func(n ast.Node) bool {
			if c, ok := n.(*ast.CallExpr); ok {
				fn := c10str(c.Fun)
				if (fn == "jsonDecode" || fn == "jsonDecodeParams") && len(c.Args) == 2 {
					calls = append(calls, c)
				}
			}
			return true
		})
		for _, c := range calls {
			u, ok := c.Args[1].(*ast.UnaryExpr)
			if !ok || u.Op != token.AND {
				continue
			}
			id, ok := u.X.(*ast.Ident)
			if !ok {
				continue
			}
			k, ok := kind[id.Name]
			if !ok {
				continue // not an envelope (e.g. &raw.Variables, websocket message structs)
			}
			if fd.Name.Name == "jsonDecodeParams" {
				continue
			}
			name := c10recv(fd) + "." + fd.Name.Name
			if n, ok := c10siteNames[name]; ok {
				name = n
			}
			target := ".value"
			if k == "pointer" {
				checked := false
				if c10str(c.Fun) == "jsonDecodeParams" {
					if !helperExists {
						return "", fmt.Errorf("jsonDecodeParams used but not defined")
					}
					checked = helperChecks
				} else {
					// an explicit `if params == nil { … return }` after the call
					ast.Inspect(fd.Body, func(n ast.Node) bool {
						if is, ok := n.(*ast.IfStmt); ok && is.Pos() > c.End() && c10str(is.Cond) == id.Name+" == nil" {
							if len(is.Body.List) > 0 {
								if _, ok := is.Body.List[len(is.Body.List)-1].(*ast.ReturnStmt); ok {
									checked = true
								}
							}
						}
						return true
					})
				}
				target = fmt.Sprintf(".pointer %v", checked)
			}
			sites = append(sites, siteT{name, target})
		}
	}
	if len(sites) == 0 {
		return "", fmt.Errorf("no jsonDecode(…, &params) site found in %s", dir)
	}
	sort.Slice(sites, func(i, j int) bool { return sites[i].name < sites[j].name })
	var b strings.Builder
	b.WriteString("import GqlgenVerif.Model.Upload\nnamespace GqlgenVerif.Gen.DecodeSites\nopen GqlgenVerif.Upload\n\n")
	b.WriteString("/-- every decode of a request envelope into RawParams in graphql/handler/transport -/\ndef sites : List Site := [\n")
	for i, s := range sites {
		sep := ","
		if i == len(sites)-1 {
			sep = ""
		}
		fmt.Fprintf(&b, "  ⟨%q, %s⟩%s\n", s.name, s.target, sep)
	}
	b.WriteString("]\n\nend GqlgenVerif.Gen.DecodeSites\n")
	return b.String(), nil
}
