package main

import (
	"fmt"
	"go/ast"
	"go/parser"
	"go/token"
	"path/filepath"
	"strings"
)

// SafeAdd: translate complexity.safeAdd (straight-line int arithmetic with early returns and one
// conditional re-assignment) and the constant maxInt into Lean over Int, with Go's wrap-around made
// explicit: `a + b` on int becomes `Go.conv_int (a + b)`, `^x` becomes `-x - 1`, `x >> k` becomes
// `x >>> k`, `uint(x)`/`int(x)` become `Go.conv_uint`/`Go.conv_int`.
//
//	c := a + b
//	if c < a { c = maxInt }
//	return c
//
// becomes
//
//	let c := Go.conv_int (a + b)
//	let c := if c < a then maxInt else c
//	c

func init() { extractors["SafeAdd"] = extractSafeAdd }

type saTr struct{ errs []string }

func (t *saTr) fail(format string, a ...any) string {
	t.errs = append(t.errs, fmt.Sprintf(format, a...))
	return "?"
}

// expr translates an int-typed (or bool-typed, for comparisons) expression.
func (t *saTr) expr(e ast.Expr) string {
	switch e := e.(type) {
	case *ast.Ident:
		return e.Name
	case *ast.BasicLit:
		if e.Kind == token.INT {
			return "(" + e.Value + " : Int)"
		}
	case *ast.ParenExpr:
		return t.expr(e.X)
	case *ast.UnaryExpr:
		switch e.Op {
		case token.XOR: // bitwise complement; the operand's type decides the wrap, which the enclosing conversion applies
			if c, ok := e.X.(*ast.CallExpr); ok {
				if id, ok := c.Fun.(*ast.Ident); ok && (id.Name == "uint" || id.Name == "int") {
					return "(Go.conv_" + id.Name + " (-" + t.expr(e.X) + " - 1))"
				}
			}
			return t.fail("complement of an expression whose type is not syntactically evident")
		case token.SUB:
			return "(Go.conv_int (-" + t.expr(e.X) + "))"
		}
	case *ast.CallExpr:
		if id, ok := e.Fun.(*ast.Ident); ok && len(e.Args) == 1 && (id.Name == "uint" || id.Name == "int") {
			return "(Go.conv_" + id.Name + " " + t.expr(e.Args[0]) + ")"
		}
	case *ast.BinaryExpr:
		x, y := t.expr(e.X), t.expr(e.Y)
		switch e.Op {
		case token.ADD:
			return "(Go.conv_int (" + x + " + " + y + "))"
		case token.SUB:
			return "(Go.conv_int (" + x + " - " + y + "))"
		case token.SHR:
			if lit, ok := e.Y.(*ast.BasicLit); ok && lit.Kind == token.INT {
				return "(" + x + " >>> " + lit.Value + ")"
			}
			return t.fail("shift by a non-literal")
		case token.LSS:
			return "(" + x + " < " + y + ")"
		case token.GTR:
			return "(" + x + " > " + y + ")"
		case token.LEQ:
			return "(" + x + " ≤ " + y + ")"
		case token.GEQ:
			return "(" + x + " ≥ " + y + ")"
		case token.EQL:
			return "(" + x + " = " + y + ")"
		case token.NEQ:
			return "(" + x + " ≠ " + y + ")"
		case token.LAND:
			return "(" + x + " ∧ " + y + ")"
		case token.LOR:
			return "(" + x + " ∨ " + y + ")"
		}
	}
	return t.fail("untranslatable expression %T", e)
}

// terminates: every path through ss ends in a return.
func terminates(ss []ast.Stmt) bool {
	if len(ss) == 0 {
		return false
	}
	switch s := ss[len(ss)-1].(type) {
	case *ast.ReturnStmt:
		return true
	case *ast.IfStmt:
		if s.Else == nil {
			return false
		}
		var els []ast.Stmt
		switch e := s.Else.(type) {
		case *ast.BlockStmt:
			els = e.List
		case *ast.IfStmt:
			els = []ast.Stmt{e}
		}
		return terminates(s.Body.List) && terminates(els)
	}
	return false
}

// stmts translates a statement list (followed by the continuation `rest`) into an Int-valued Lean term.
func (t *saTr) stmts(ss []ast.Stmt, ind string) string {
	if len(ss) == 0 {
		return t.fail("control reaches the end of the function without a return")
	}
	rest := ss[1:]
	switch s := ss[0].(type) {
	case *ast.ReturnStmt:
		if len(s.Results) == 1 {
			return t.expr(s.Results[0])
		}
	case *ast.AssignStmt:
		if len(s.Lhs) == 1 && len(s.Rhs) == 1 && (s.Tok == token.DEFINE || s.Tok == token.ASSIGN) {
			if id, ok := s.Lhs[0].(*ast.Ident); ok {
				return "let " + id.Name + " := " + t.expr(s.Rhs[0]) + "\n" + ind + t.stmts(rest, ind)
			}
		}
	case *ast.IfStmt:
		if s.Init != nil {
			break
		}
		var els []ast.Stmt
		switch e := s.Else.(type) {
		case nil:
		case *ast.BlockStmt:
			els = e.List
		case *ast.IfStmt:
			els = []ast.Stmt{e}
		}
		if terminates(s.Body.List) {
			// if c { …return } [else E]; rest   ==>   if c then … else (E; rest)
			return "if " + t.expr(s.Cond) + " then\n" + ind + "  " + t.stmts(s.Body.List, ind+"  ") +
				"\n" + ind + "else\n" + ind + "  " + t.stmts(append(append([]ast.Stmt{}, els...), rest...), ind+"  ")
		}
		// if c { x = e }; rest   ==>   let x := if c then e else x; rest
		if s.Else == nil && len(s.Body.List) == 1 {
			if a, ok := s.Body.List[0].(*ast.AssignStmt); ok && a.Tok == token.ASSIGN && len(a.Lhs) == 1 && len(a.Rhs) == 1 {
				if id, ok := a.Lhs[0].(*ast.Ident); ok {
					return "let " + id.Name + " := if " + t.expr(s.Cond) + " then " + t.expr(a.Rhs[0]) + " else " + id.Name +
						"\n" + ind + t.stmts(rest, ind)
				}
			}
		}
	}
	return t.fail("untranslatable statement %T", ss[0])
}

func extractSafeAdd(repo string) (string, error) {
	fset := token.NewFileSet()
	f, err := parser.ParseFile(fset, filepath.Join(repo, "complexity", "complexity.go"), nil, 0)
	if err != nil {
		return "", err
	}
	t := &saTr{}
	var maxIntDef, safeAddDef string
	for _, d := range f.Decls {
		switch d := d.(type) {
		case *ast.GenDecl:
			if d.Tok != token.CONST {
				continue
			}
			for _, sp := range d.Specs {
				vs := sp.(*ast.ValueSpec)
				for i, n := range vs.Names {
					if n.Name == "maxInt" && i < len(vs.Values) {
						maxIntDef = "/-- `const maxInt = …` of complexity/complexity.go -/\ndef maxInt : Int :=\n  " + t.expr(vs.Values[i]) + "\n\n"
					}
				}
			}
		case *ast.FuncDecl:
			if d.Recv != nil || d.Name.Name != "safeAdd" {
				continue
			}
			var params []string
			for _, p := range d.Type.Params.List {
				id, ok := p.Type.(*ast.Ident)
				if !ok || id.Name != "int" {
					return "", fmt.Errorf("safeAdd: parameter type is not int")
				}
				for _, n := range p.Names {
					params = append(params, n.Name)
				}
			}
			if len(params) != 2 {
				return "", fmt.Errorf("safeAdd: expected two int parameters, found %d", len(params))
			}
			if d.Type.Results == nil || len(d.Type.Results.List) != 1 {
				return "", fmt.Errorf("safeAdd: expected a single result")
			}
			safeAddDef = fmt.Sprintf("/-- `func safeAdd(%s, %s int) int` of complexity/complexity.go, Go's int `+` wrapping modulo 2^64 -/\ndef safeAdd (%s %s : Int) : Int :=\n  %s\n\n",
				params[0], params[1], params[0], params[1], t.stmts(d.Body.List, "  "))
		}
	}
	if maxIntDef == "" {
		return "", fmt.Errorf("const maxInt not found in complexity/complexity.go")
	}
	if safeAddDef == "" {
		return "", fmt.Errorf("func safeAdd not found in complexity/complexity.go")
	}
	if len(t.errs) > 0 {
		return "", fmt.Errorf("%s", strings.Join(t.errs, "; "))
	}
	return "import GqlgenVerif.Model.GoInt\nnamespace GqlgenVerif.Gen.SafeAdd\nopen GqlgenVerif\n\n" + maxIntDef + safeAddDef + "end GqlgenVerif.Gen.SafeAdd\n", nil
}
