package main

import (
	"fmt"
	"go/ast"
	"go/types"
	"os"
	"path/filepath"
	"sort"
	"strings"

	"golang.org/x/tools/go/packages"
)

// RegistryCallers (C18): who asks the process-global name registry of codegen/templates (`modelNames`, behind
// ToGoModelName / ToGoPrivateModelName: FooBar, FooBar0, ... handed out FIRST COME FIRST SERVED) and from where.
//
// The registry makes the names of generated models unique; which of two GraphQL names that normalise to the same Go
// name gets the suffix is decided by the ORDER of the first requests. In the unchanged generator the only requests come
// from text/template executions (models.gotpl: `goModelName`), which walk slices sorted by name - no Go code calls the
// registry. A request made from Go code that runs under a `range` over a Go map makes the allocation depend on the
// per-process map seed.
//
// Over the type-checked generator packages (the same set as MapRanges), with the static call graph of CALLS (a CallExpr
// whose callee resolves to a *types.Func; calls through interfaces / function values are not followed, and mentioning a
// function without calling it - the template FuncMap - is not a call):
//
//	registryFuncs   functions of codegen/templates that reach the package variable `modelNames`
//	goCallers       call sites OUTSIDE codegen/templates whose callee is a registry function: (file, func, callee)
//	underMapRange   `range` statements over a map whose body reaches a registry function through calls:
//	                (file, func, ranged expression, the call in the body that leads there)
//
// Props/C18Names.lean proves `registry_never_asked_under_map_iteration` (underMapRange = []) from the regenerated lists
// and, over Model/NameRegistry.lean, that requests in an order fixed by the inputs give an allocation independent of
// everything else, while two requests in either order do not.
func init() { extractors["RegistryCallers"] = extractRegistryCallers }

func extractRegistryCallers(repo string) (string, error) {
	cfg := &packages.Config{Mode: packages.NeedName | packages.NeedFiles | packages.NeedSyntax | packages.NeedTypes | packages.NeedTypesInfo | packages.NeedImports | packages.NeedDeps,
		Dir: repo, Env: append(os.Environ(), "GOFLAGS=-mod=mod", "GOPROXY=off")}
	var pats []string
	for _, p := range mapRangePkgs {
		pats = append(pats, "./"+p)
	}
	pkgs, err := packages.Load(cfg, pats...)
	if err != nil {
		return "", err
	}
	const tplPath = "github.com/99designs/gqlgen/codegen/templates"
	type fn struct {
		key, file, name, pkg string
		decl                 *ast.FuncDecl
		info                 *types.Info
	}
	var fns []*fn
	calls := map[string]map[string]bool{} // caller -> callees
	seeds := map[string]bool{}
	callee := func(info *types.Info, c *ast.CallExpr) *types.Func {
		var id *ast.Ident
		switch f := ast.Unparen(c.Fun).(type) {
		case *ast.Ident:
			id = f
		case *ast.SelectorExpr:
			id = f.Sel
		case *ast.IndexExpr: // generic instantiation f[T](...)
			switch g := f.X.(type) {
			case *ast.Ident:
				id = g
			case *ast.SelectorExpr:
				id = g.Sel
			}
		}
		if id == nil {
			return nil
		}
		if f, ok := info.Uses[id].(*types.Func); ok {
			return f.Origin()
		}
		return nil
	}
	foundVar := false
	for _, pkg := range pkgs {
		if len(pkg.Errors) > 0 {
			return "", fmt.Errorf("package %s does not type-check: %v", pkg.PkgPath, pkg.Errors[0])
		}
		for _, f := range pkg.Syntax {
			fname := pkg.Fset.Position(f.Pos()).Filename
			if strings.HasSuffix(fname, "_test.go") || strings.HasSuffix(fname, "verif_export.go") {
				continue
			}
			rel, _ := filepath.Rel(repo, fname)
			for _, d := range f.Decls {
				fd, ok := d.(*ast.FuncDecl)
				if !ok || fd.Body == nil {
					continue
				}
				obj, _ := pkg.TypesInfo.Defs[fd.Name].(*types.Func)
				if obj == nil {
					continue
				}
				name := fd.Name.Name
				if fd.Recv != nil && len(fd.Recv.List) > 0 {
					name = strings.TrimPrefix(mrNodeStr(pkg.Fset, fd.Recv.List[0].Type), "*") + "." + name
				}
				x := &fn{key: obj.FullName(), file: filepath.ToSlash(rel), name: name, pkg: pkg.PkgPath, decl: fd, info: pkg.TypesInfo}
				fns = append(fns, x)
				calls[x.key] = map[string]bool{}
				ast.Inspect(fd.Body, func(n ast.Node) bool {
					switch v := n.(type) {
					case *ast.CallExpr:
						if c := callee(pkg.TypesInfo, v); c != nil {
							calls[x.key][c.FullName()] = true
						}
					case *ast.Ident:
						if pkg.PkgPath == tplPath && v.Name == "modelNames" {
							if vr, ok := pkg.TypesInfo.Uses[v].(*types.Var); ok && vr.Parent() == pkg.Types.Scope() {
								seeds[x.key] = true
								foundVar = true
							}
						}
					}
					return true
				})
			}
		}
	}
	if !foundVar {
		return "", fmt.Errorf("codegen/templates: no function uses a package variable `modelNames` (the name registry moved: re-tie)")
	}
	reach := map[string]bool{}
	for k := range seeds {
		reach[k] = true
	}
	for changed := true; changed; {
		changed = false
		for caller, cs := range calls {
			if reach[caller] {
				continue
			}
			for c := range cs {
				if reach[c] {
					reach[caller] = true
					changed = true
					break
				}
			}
		}
	}
	byKey := map[string]*fn{}
	for _, x := range fns {
		byKey[x.key] = x
	}
	var registry, callers, under []string
	for _, x := range fns {
		if x.pkg == tplPath && reach[x.key] {
			registry = append(registry, fmt.Sprintf("%q", x.name))
		}
	}
	for _, x := range fns {
		fset := (*packages.Package)(nil)
		_ = fset
		var pk *packages.Package
		for _, p := range pkgs {
			if p.PkgPath == x.pkg {
				pk = p
			}
		}
		// call sites outside the templates package
		if x.pkg != tplPath {
			ast.Inspect(x.decl.Body, func(n ast.Node) bool {
				if c, ok := n.(*ast.CallExpr); ok {
					if f := callee(x.info, c); f != nil && f.Pkg() != nil && f.Pkg().Path() == tplPath && reach[f.FullName()] {
						callers = append(callers, fmt.Sprintf("⟨%q, %q, %q, %d⟩", x.file, x.name, f.Name(), pk.Fset.Position(c.Pos()).Line))
					}
				}
				return true
			})
		}
		// map ranges whose body reaches the registry
		ast.Inspect(x.decl.Body, func(n ast.Node) bool {
			rs, ok := n.(*ast.RangeStmt)
			if !ok {
				return true
			}
			t := x.info.TypeOf(rs.X)
			if t == nil {
				return true
			}
			if _, isMap := t.Underlying().(*types.Map); !isMap {
				return true
			}
			via := ""
			ast.Inspect(rs.Body, func(m ast.Node) bool {
				if c, ok := m.(*ast.CallExpr); ok && via == "" {
					if f := callee(x.info, c); f != nil && reach[f.FullName()] {
						via = strings.Join(strings.Fields(mrNodeStr(pk.Fset, c.Fun)), " ")
					}
				}
				return true
			})
			if via != "" {
				under = append(under, fmt.Sprintf("⟨%q, %q, %q, %q, %d⟩", x.file, x.name, mrNodeStr(pk.Fset, rs.X), via, pk.Fset.Position(rs.Pos()).Line))
			}
			return true
		})
	}
	sort.Strings(registry)
	sort.Strings(callers)
	sort.Strings(under)
	var b strings.Builder
	b.WriteString("/-! Who asks the name registry of codegen/templates (`modelNames`), and from where (go/extract/registrycallers.go). -/\n")
	b.WriteString("namespace GqlgenVerif.Gen.RegistryCallers\n\n")
	b.WriteString("structure Caller where\n  file : String\n  func : String\n  callee : String\n  line : Nat\n  deriving Repr, DecidableEq\n\n")
	b.WriteString("structure MapLoop where\n  file : String\n  func : String\n  ranged : String\n  via : String\n  line : Nat\n  deriving Repr, DecidableEq\n\n")
	b.WriteString("/-- functions of codegen/templates that reach the package variable `modelNames` through calls -/\n")
	b.WriteString("def registryFuncs : List String := [" + strings.Join(registry, ", ") + "]\n\n")
	b.WriteString("/-- Go call sites outside codegen/templates whose callee is a registry function -/\n")
	b.WriteString("def goCallers : List Caller := [" + joinLines(callers) + "]\n\n")
	b.WriteString("/-- `range` statements over a Go map whose body reaches a registry function through calls -/\n")
	b.WriteString("def underMapRange : List MapLoop := [" + joinLines(under) + "]\n\n")
	b.WriteString("end GqlgenVerif.Gen.RegistryCallers\n")
	return b.String(), nil
}

func joinLines(xs []string) string {
	if len(xs) == 0 {
		return ""
	}
	return "\n  " + strings.Join(xs, ",\n  ") + "\n"
}
