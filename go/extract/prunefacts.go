package main

import (
	"fmt"
	"go/ast"
	"go/parser"
	"go/token"
	"path/filepath"
	"strconv"
	"strings"
)

// PruneFacts (C19): how internal/imports/prune.go decides that an import is used. The resolver template
// reserves context / fmt / io / strconv / time / sync / errors / bytes / gqlparser / ast / graphql /
// introspection in EVERY resolver file and relies on imports.Prune to delete the ones the file does not use;
// a user body copied verbatim may contain a parameter, local or range variable spelled like one of them
// (`time.Zone` on the parameter of the schema argument `time: Slot!`, `errors := …; errors.Text`). Whether such
// a selector base counts as a use of the PACKAGE rests on two places that only work together:
//
//	Prune:             file, err := parser.ParseFile(fset, filename, src, F1|F2|…)     -> parseFlags
//	                   unused := getUnusedImports(file, packages)      (the file parsed THERE)
//	getUnusedImports:  case *ast.SelectorExpr:
//	                       xident, ok := v.X.(*ast.Ident)
//	                       if !ok { break }
//	                       if xident.Obj != nil { break }                               -> skipResolvedBase
//	                       used[xident.Name] = true
//	                   for pkg := range used { delete(imported, pkg) }                  -> dropsUsed
//	                   for pkg, is := range imported {
//	                       if !used[pkg] && pkg != "_" && pkg != "." { unusedImport[…] = … }  -> dropsUsed, neverUnused
//
// (go/parser fills Ident.Obj only without parser.SkipObjectResolution.) Props/C19Prune.lean proves over THESE
// definitions that exactly the selector bases go/parser cannot resolve inside the file count as uses. Any other
// statement in the SelectorExpr arm, another flag expression, another condition: refused (broken tie).
func init() { extractors["PruneFacts"] = extractPruneFacts }

func pfFlags(e ast.Expr) ([]string, error) {
	switch v := e.(type) {
	case *ast.ParenExpr:
		return pfFlags(v.X)
	case *ast.BinaryExpr:
		if v.Op != token.OR {
			return nil, fmt.Errorf("parser mode: operator %s", v.Op)
		}
		a, err := pfFlags(v.X)
		if err != nil {
			return nil, err
		}
		b, err := pfFlags(v.Y)
		if err != nil {
			return nil, err
		}
		return append(a, b...), nil
	case *ast.SelectorExpr:
		if x, ok := v.X.(*ast.Ident); ok && x.Name == "parser" {
			return []string{v.Sel.Name}, nil
		}
	case *ast.BasicLit:
		if v.Value == "0" {
			return nil, nil
		}
	}
	return nil, fmt.Errorf("parser mode is not an or of parser.<Flag> constants")
}

func pfFunc(f *ast.File, name string) *ast.FuncDecl {
	for _, d := range f.Decls {
		if fd, ok := d.(*ast.FuncDecl); ok && fd.Name.Name == name && fd.Recv == nil && fd.Body != nil {
			return fd
		}
	}
	return nil
}

func pfIsBreakBlock(b *ast.BlockStmt) bool {
	if b == nil || len(b.List) != 1 {
		return false
	}
	br, ok := b.List[0].(*ast.BranchStmt)
	return ok && br.Tok == token.BREAK && br.Label == nil
}

func extractPruneFacts(repo string) (string, error) {
	fset := token.NewFileSet()
	path := filepath.Join(repo, "internal/imports/prune.go")
	f, err := parser.ParseFile(fset, path, nil, 0)
	if err != nil {
		return "", err
	}
	// ---- Prune: the parser mode, and that the file parsed there is what getUnusedImports walks
	pr := pfFunc(f, "Prune")
	if pr == nil {
		return "", fmt.Errorf("Prune not found")
	}
	var flags []string
	parsedVar := ""
	nParse := 0
	var ferr error
	ast.Inspect(pr, func(n ast.Node) bool {
		as, ok := n.(*ast.AssignStmt)
		if !ok || len(as.Rhs) != 1 {
			return true
		}
		c, ok := as.Rhs[0].(*ast.CallExpr)
		if !ok || roSel(c.Fun) != "parser.ParseFile" {
			return true
		}
		nParse++
		if len(c.Args) != 4 || len(as.Lhs) != 2 {
			ferr = fmt.Errorf("Prune: parser.ParseFile is not called as `file, err := parser.ParseFile(fset, filename, src, mode)`")
			return false
		}
		if id, ok := as.Lhs[0].(*ast.Ident); ok {
			parsedVar = id.Name
		}
		flags, ferr = pfFlags(c.Args[3])
		return ferr == nil
	})
	if ferr != nil {
		return "", ferr
	}
	if nParse != 1 || parsedVar == "" {
		return "", fmt.Errorf("Prune: expected exactly one parser.ParseFile call assigned to a variable, found %d", nParse)
	}
	nWalk := 0
	ast.Inspect(pr, func(n ast.Node) bool {
		if c, ok := n.(*ast.CallExpr); ok && roSel(c.Fun) == "getUnusedImports" {
			nWalk++
			if len(c.Args) != 2 || roSel(c.Args[0]) != parsedVar {
				ferr = fmt.Errorf("Prune: getUnusedImports is not called on the file parsed by parser.ParseFile")
			}
		}
		return true
	})
	if ferr != nil {
		return "", ferr
	}
	if nWalk != 1 {
		return "", fmt.Errorf("Prune: expected one call of getUnusedImports, found %d", nWalk)
	}
	// a second parse of the source inside getUnusedImports (or anywhere else in the file) would make the flags moot
	nParseAll := 0
	ast.Inspect(f, func(n ast.Node) bool {
		if c, ok := n.(*ast.CallExpr); ok && strings.HasPrefix(roSel(c.Fun), "parser.Parse") {
			nParseAll++
		}
		return true
	})
	if nParseAll != 1 {
		return "", fmt.Errorf("prune.go: %d parser.Parse* calls, expected 1", nParseAll)
	}

	// ---- getUnusedImports: the *ast.SelectorExpr arm
	gu := pfFunc(f, "getUnusedImports")
	if gu == nil {
		return "", fmt.Errorf("getUnusedImports not found")
	}
	var arm *ast.CaseClause
	nArm := 0
	swVar := ""
	ast.Inspect(gu, func(n ast.Node) bool {
		ts, ok := n.(*ast.TypeSwitchStmt)
		if !ok {
			return true
		}
		if as, ok := ts.Assign.(*ast.AssignStmt); ok && len(as.Lhs) == 1 {
			swVar = roSel(as.Lhs[0])
		}
		for _, s := range ts.Body.List {
			cc := s.(*ast.CaseClause)
			for _, t := range cc.List {
				if st, ok := t.(*ast.StarExpr); ok && roSel(st.X) == "ast.SelectorExpr" {
					arm = cc
					nArm++
					if len(cc.List) != 1 {
						ferr = fmt.Errorf("getUnusedImports: the *ast.SelectorExpr arm lists several types")
					}
				}
			}
		}
		return true
	})
	if ferr != nil {
		return "", ferr
	}
	if arm == nil || nArm != 1 || swVar == "" {
		return "", fmt.Errorf("getUnusedImports: expected one `case *ast.SelectorExpr:` arm of `switch v := node.(type)`, found %d", nArm)
	}
	// statements of the arm, in order
	base := ""  // the identifier variable
	okVar := "" // the comma-ok variable
	stage := 0  // 0: want the type assertion, 1: want `if !ok {break}`, 2: guard or mark, 3: done
	skipResolved := false
	usedMap := ""
	for _, s := range arm.Body {
		switch stage {
		case 0:
			as, ok := s.(*ast.AssignStmt)
			if !ok || as.Tok != token.DEFINE || len(as.Lhs) != 2 || len(as.Rhs) != 1 {
				return "", fmt.Errorf("SelectorExpr arm: first statement is not `x, ok := %s.X.(*ast.Ident)`", swVar)
			}
			ta, ok := as.Rhs[0].(*ast.TypeAssertExpr)
			if !ok || roSel(ta.X) != swVar+".X" {
				return "", fmt.Errorf("SelectorExpr arm: the base is not taken from %s.X", swVar)
			}
			st, ok := ta.Type.(*ast.StarExpr)
			if !ok || roSel(st.X) != "ast.Ident" {
				return "", fmt.Errorf("SelectorExpr arm: the base is not asserted to *ast.Ident")
			}
			base, okVar = roSel(as.Lhs[0]), roSel(as.Lhs[1])
			stage = 1
		case 1:
			is, ok := s.(*ast.IfStmt)
			if !ok || is.Init != nil || is.Else != nil || !pfIsBreakBlock(is.Body) {
				return "", fmt.Errorf("SelectorExpr arm: expected `if !%s { break }`", okVar)
			}
			u, ok := is.Cond.(*ast.UnaryExpr)
			if !ok || u.Op != token.NOT || roSel(u.X) != okVar {
				return "", fmt.Errorf("SelectorExpr arm: expected `if !%s { break }`", okVar)
			}
			stage = 2
		case 2:
			if is, ok := s.(*ast.IfStmt); ok {
				be, ok := is.Cond.(*ast.BinaryExpr)
				if skipResolved || is.Init != nil || is.Else != nil || !pfIsBreakBlock(is.Body) || !ok || be.Op != token.NEQ ||
					roSel(be.X) != base+".Obj" || roSel(be.Y) != "nil" {
					return "", fmt.Errorf("SelectorExpr arm: unknown guard (expected `if %s.Obj != nil { break }`)", base)
				}
				skipResolved = true
				continue
			}
			as, ok := s.(*ast.AssignStmt)
			if !ok || as.Tok != token.ASSIGN || len(as.Lhs) != 1 || len(as.Rhs) != 1 || roSel(as.Rhs[0]) != "true" {
				return "", fmt.Errorf("SelectorExpr arm: expected `used[%s.Name] = true`", base)
			}
			ix, ok := as.Lhs[0].(*ast.IndexExpr)
			if !ok || roSel(ix.Index) != base+".Name" || roSel(ix.X) == "" {
				return "", fmt.Errorf("SelectorExpr arm: expected `used[%s.Name] = true`", base)
			}
			usedMap = roSel(ix.X)
			stage = 3
		default:
			return "", fmt.Errorf("SelectorExpr arm: statement after `%s[%s.Name] = true`", usedMap, base)
		}
	}
	if stage != 3 {
		return "", fmt.Errorf("SelectorExpr arm: `used[<ident>.Name] = true` not found")
	}
	// no other write to the used map anywhere in the function
	nWrites := 0
	ast.Inspect(gu, func(n ast.Node) bool {
		if as, ok := n.(*ast.AssignStmt); ok {
			for _, l := range as.Lhs {
				if ix, ok := l.(*ast.IndexExpr); ok && roSel(ix.X) == usedMap {
					nWrites++
				}
			}
		}
		return true
	})
	if nWrites != 1 {
		return "", fmt.Errorf("getUnusedImports: %d writes to %s, expected 1", nWrites, usedMap)
	}

	// ---- which of the imported names are reported unused
	deletesUsed := false
	condUsed := false
	var never []string
	nReport := 0
	for _, s := range gu.Body.List {
		rs, ok := s.(*ast.RangeStmt)
		if !ok {
			continue
		}
		key := roSel(rs.Key)
		switch roSel(rs.X) {
		case usedMap:
			if len(rs.Body.List) == 1 {
				if es, ok := rs.Body.List[0].(*ast.ExprStmt); ok {
					if c, ok := es.X.(*ast.CallExpr); ok && roSel(c.Fun) == "delete" && len(c.Args) == 2 && roSel(c.Args[1]) == key {
						deletesUsed = true
						continue
					}
				}
			}
			return "", fmt.Errorf("getUnusedImports: unknown loop over %s", usedMap)
		default:
			if len(rs.Body.List) != 1 {
				return "", fmt.Errorf("getUnusedImports: unknown loop over %s", roSel(rs.X))
			}
			is, ok := rs.Body.List[0].(*ast.IfStmt)
			if !ok || is.Init != nil || is.Else != nil {
				return "", fmt.Errorf("getUnusedImports: the loop over %s is not one `if`", roSel(rs.X))
			}
			nReport++
			var conj func(e ast.Expr) error
			conj = func(e ast.Expr) error {
				switch v := e.(type) {
				case *ast.ParenExpr:
					return conj(v.X)
				case *ast.BinaryExpr:
					if v.Op == token.LAND {
						if err := conj(v.X); err != nil {
							return err
						}
						return conj(v.Y)
					}
					if v.Op == token.NEQ && roSel(v.X) == key {
						if bl, ok := v.Y.(*ast.BasicLit); ok && bl.Kind == token.STRING {
							sv, err := strconv.Unquote(bl.Value)
							if err != nil {
								return err
							}
							never = append(never, sv)
							return nil
						}
					}
				case *ast.UnaryExpr:
					if ix, ok := v.X.(*ast.IndexExpr); ok && v.Op == token.NOT && roSel(ix.X) == usedMap && roSel(ix.Index) == key {
						condUsed = true
						return nil
					}
				}
				return fmt.Errorf("getUnusedImports: unknown condition on an unused import")
			}
			if err := conj(is.Cond); err != nil {
				return "", err
			}
		}
	}
	if nReport != 1 {
		return "", fmt.Errorf("getUnusedImports: expected one loop reporting unused imports, found %d", nReport)
	}

	q := func(l []string) string {
		var o []string
		for _, s := range l {
			o = append(o, strconv.Quote(s))
		}
		return "[" + strings.Join(o, ", ") + "]"
	}
	b := func(v bool) string {
		if v {
			return "true"
		}
		return "false"
	}
	var sb strings.Builder
	sb.WriteString("/-! Facts re-read from internal/imports/prune.go (C19: which selector bases count as a use of an import). -/\n")
	sb.WriteString("namespace GqlgenVerif.Gen.PruneFacts\n\n")
	sb.WriteString("/-- Prune: the parser.Mode flags of `parser.ParseFile(fset, filename, src, …)` whose result getUnusedImports walks -/\n")
	sb.WriteString("def parseFlags : List String := " + q(flags) + "\n\n")
	sb.WriteString("/-- getUnusedImports, `case *ast.SelectorExpr`: `if xident.Obj != nil { break }` stands before `used[xident.Name] = true` -/\n")
	sb.WriteString("def skipResolvedBase : Bool := " + b(skipResolved) + "\n\n")
	sb.WriteString("/-- a name in `used` is never reported unused (`delete(imported, pkg)` for every used name, or `!used[pkg]` in the report) -/\n")
	sb.WriteString("def dropsUsed : Bool := " + b(deletesUsed || condUsed) + "\n\n")
	sb.WriteString("/-- names never reported unused: the `pkg != \"…\"` conjuncts of the report -/\n")
	sb.WriteString("def neverUnused : List String := " + q(never) + "\n\n")
	sb.WriteString("end GqlgenVerif.Gen.PruneFacts\n")
	return sb.String(), nil
}
