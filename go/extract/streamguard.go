package main

import (
	"fmt"
	"go/ast"
	"go/token"
	"path/filepath"
	"strings"
)

// StreamGuard (C12): WHEN the two streaming transports write - the guards and the goroutine bodies
// around the writes whose bytes StreamFmt and whose callers StreamLoop regenerate.
//
//	sse.go   sseConnection.write     statement list; the condition of its `if … { return }` over
//	                                 (c.closed, the request context being done)
//	         sseConnection.close     statement list
//	         sseConnection.keepAlive `for { select { case <-c.ctx.Done(): …; case <-c.keepAliveTicker.C: … } }`
//	         SSE.Do                  the func literal of the last c.write (complete), `defer c.close()`
//	http_multipart_mixed.go
//	         multipartResponseAggregator.flush   condition of the early return over
//	                                 (a.initialResponse == nil, len(a.deferResponses) == 0)
//	         newMultipartResponseAggregator      the select arms of the ticker goroutine
//	         multipartResponseAggregator.Done    statement list
//	         whether Add / flush / Done / the ticker goroutine mention a context at all
//
// Vocabulary: Model/StreamGuard.lean. Fails (broken tie) on any statement / condition it cannot translate.
func init() { extractors["StreamGuard"] = extractStreamGuard }

// sgCond: a condition over atoms; atom(e) returns the Lean constructor of an atomic expression or ""
func sgCond(e ast.Expr, atom func(ast.Expr) string) (string, error) {
	if a := atom(e); a != "" {
		return a, nil
	}
	switch x := e.(type) {
	case *ast.ParenExpr:
		return sgCond(x.X, atom)
	case *ast.UnaryExpr:
		if x.Op == token.NOT {
			c, err := sgCond(x.X, atom)
			if err != nil {
				return "", err
			}
			return "(.not " + c + ")", nil
		}
	case *ast.BinaryExpr:
		if x.Op == token.LOR || x.Op == token.LAND {
			a, err := sgCond(x.X, atom)
			if err != nil {
				return "", err
			}
			b, err := sgCond(x.Y, atom)
			if err != nil {
				return "", err
			}
			op := ".or"
			if x.Op == token.LAND {
				op = ".and"
			}
			return "(" + op + " " + a + " " + b + ")", nil
		}
	}
	return "", fmt.Errorf("condition not understood")
}

func sgCall(e ast.Expr) (string, *ast.CallExpr) {
	c, ok := e.(*ast.CallExpr)
	if !ok {
		return "", nil
	}
	return sfSel(c.Fun), c
}

// sgCmpNil: `X op nil` / `nil op X` -> (name of X rendered by sfSel or call name + "()", op)
func sgCmp(e ast.Expr) (l, r string, op token.Token, ok bool) {
	b, isb := e.(*ast.BinaryExpr)
	if !isb || (b.Op != token.EQL && b.Op != token.NEQ) {
		return
	}
	ren := func(x ast.Expr) string {
		if n, c := sgCall(x); c != nil {
			if n == "len" && len(c.Args) == 1 {
				return "len(" + sfSel(c.Args[0]) + ")"
			}
			if len(c.Args) == 0 {
				return n + "()"
			}
			return "?"
		}
		if bl, isl := x.(*ast.BasicLit); isl {
			return bl.Value
		}
		return sfSel(x)
	}
	return ren(b.X), ren(b.Y), b.Op, true
}

// sgIsReturnOnly: `{ return }`
func sgIsReturnOnly(b *ast.BlockStmt) bool {
	if len(b.List) != 1 {
		return false
	}
	r, ok := b.List[0].(*ast.ReturnStmt)
	return ok && len(r.Results) == 0
}

// sgRecvStmts translates the statements of a method of a connection / aggregator; recv = receiver name
func sgStmts(list []ast.Stmt, recv string, param string, cond func(ast.Expr) (string, error)) ([]string, error) {
	var out []string
	for _, st := range list {
		switch x := st.(type) {
		case *ast.ExprStmt:
			n, c := sgCall(x.X)
			switch {
			case c != nil && n == recv+".mu.Lock":
				out = append(out, ".lock")
			case c != nil && n == recv+".mu.Unlock":
				out = append(out, ".unlock")
			case c != nil && n == recv+".f.Flush":
				out = append(out, ".flush")
			case c != nil && param != "" && n == param && len(c.Args) == 0:
				out = append(out, ".run")
			case c != nil && n == recv+".flush" && len(c.Args) == 1:
				out = append(out, ".aggFlush")
			case c != nil && n == recv+".rethrow" && len(c.Args) == 0:
				out = append(out, ".rethrow")
			case c != nil && n == recv+".keepAliveTicker.Stop":
				out = append(out, ".stopTicker")
			default:
				return nil, fmt.Errorf("statement not understood: call %s", n)
			}
		case *ast.DeferStmt:
			if sfSel(x.Call.Fun) == recv+".mu.Unlock" {
				out = append(out, ".deferUnlock")
			} else {
				return nil, fmt.Errorf("defer %s not understood", sfSel(x.Call.Fun))
			}
		case *ast.IfStmt:
			if x.Init != nil || x.Else != nil || !sgIsReturnOnly(x.Body) {
				return nil, fmt.Errorf("if statement is not `if cond { return }`")
			}
			c, err := cond(x.Cond)
			if err != nil {
				return nil, err
			}
			out = append(out, "(.retIf "+c+")")
		case *ast.AssignStmt:
			if len(x.Lhs) == 1 && len(x.Rhs) == 1 && sfSel(x.Lhs[0]) == recv+".closed" && sfSel(x.Rhs[0]) == "true" && x.Tok == token.ASSIGN {
				out = append(out, ".setClosed")
			} else {
				return nil, fmt.Errorf("assignment not understood")
			}
		case *ast.SendStmt:
			if sfSel(x.Chan) == recv+".done" {
				out = append(out, ".sendDone")
			} else {
				return nil, fmt.Errorf("send not understood")
			}
		case *ast.ReturnStmt:
			if len(x.Results) != 0 {
				return nil, fmt.Errorf("return with results")
			}
			out = append(out, ".ret")
		default:
			return nil, fmt.Errorf("statement %T not understood", st)
		}
	}
	return out, nil
}

func sgRecv(fd *ast.FuncDecl) string {
	if fd.Recv != nil && len(fd.Recv.List) == 1 && len(fd.Recv.List[0].Names) == 1 {
		return fd.Recv.List[0].Names[0].Name
	}
	return ""
}

// sgSelectArms: the unique `for { select { … } }` under n: (channel expression, body) per arm
func sgSelectArms(n ast.Node) ([]*ast.CommClause, error) {
	var sels []*ast.SelectStmt
	ast.Inspect(n, func(m ast.Node) bool {
		if fs, ok := m.(*ast.ForStmt); ok && fs.Init == nil && fs.Cond == nil && fs.Post == nil && len(fs.Body.List) == 1 {
			if s, ok := fs.Body.List[0].(*ast.SelectStmt); ok {
				sels = append(sels, s)
			}
		}
		return true
	})
	if len(sels) != 1 {
		return nil, fmt.Errorf("%d `for { select {…} }` loops, want 1", len(sels))
	}
	var arms []*ast.CommClause
	for _, c := range sels[0].Body.List {
		arms = append(arms, c.(*ast.CommClause))
	}
	return arms, nil
}

// sgRecvChan: `case <-X:` -> rendering of X
func sgRecvChan(c *ast.CommClause) string {
	es, ok := c.Comm.(*ast.ExprStmt)
	if !ok {
		return "?"
	}
	u, ok := es.X.(*ast.UnaryExpr)
	if !ok || u.Op != token.ARROW {
		return "?"
	}
	if n, call := sgCall(u.X); call != nil && len(call.Args) == 0 {
		return n + "()"
	}
	return sfSel(u.X)
}

func sgList(xs []string) string { return "[" + strings.Join(xs, ", ") + "]" }

func extractStreamGuard(repo string) (string, error) {
	dir := filepath.Join(repo, "graphql", "handler", "transport")
	sse, err := sfParse(filepath.Join(dir, "sse.go"))
	if err != nil {
		return "", err
	}
	mp, err := sfParse(filepath.Join(dir, "http_multipart_mixed.go"))
	if err != nil {
		return "", err
	}
	var b strings.Builder
	b.WriteString("import GqlgenVerif.Model.StreamGuard\nnamespace GqlgenVerif.Gen.StreamGuard\nopen GqlgenVerif.StreamGuard\n\n")
	line := func(f *sfFile, n ast.Node) int { return f.fset.Position(n.Pos()).Line }

	// ---- sseConnection.write
	wfd, ok := sse.funcs["sseConnection.write"]
	if !ok {
		return "", fmt.Errorf("sse.go: sseConnection.write not found")
	}
	recv := sgRecv(wfd)
	if recv == "" || len(wfd.Type.Params.List) != 1 || len(wfd.Type.Params.List[0].Names) != 1 {
		return "", fmt.Errorf("sseConnection.write: receiver / parameter shape")
	}
	param := wfd.Type.Params.List[0].Names[0].Name
	sseAtom := func(r string) func(ast.Expr) string {
		return func(e ast.Expr) string {
			if sfSel(e) == r+".closed" {
				return ".closed"
			}
			if l, rr, op, ok := sgCmp(e); ok {
				if (l == r+".ctx.Err()" && rr == "nil") || (l == "nil" && rr == r+".ctx.Err()") {
					if op == token.NEQ {
						return ".ctxDone"
					}
					return "(.not .ctxDone)"
				}
				if (l == r+".closed" && (rr == "true" || rr == "false")) || (rr == r+".closed" && (l == "true" || l == "false")) {
					lit := rr
					if l != r+".closed" {
						lit = l
					}
					if (lit == "true") == (op == token.EQL) {
						return ".closed"
					}
					return "(.not .closed)"
				}
			}
			return ""
		}
	}
	wst, err := sgStmts(wfd.Body.List, recv, param, func(e ast.Expr) (string, error) { return sgCond(e, sseAtom(recv)) })
	if err != nil {
		return "", fmt.Errorf("sseConnection.write: %v", err)
	}
	fmt.Fprintf(&b, "/-- `sseConnection.write` (sse.go line %d), statement by statement -/\ndef sseWrite : List WStmt := %s\n\n", line(sse, wfd), sgList(wst))

	// ---- sseConnection.close
	cfd, ok := sse.funcs["sseConnection.close"]
	if !ok {
		return "", fmt.Errorf("sse.go: sseConnection.close not found")
	}
	cst, err := sgStmts(cfd.Body.List, sgRecv(cfd), "", func(e ast.Expr) (string, error) { return sgCond(e, sseAtom(sgRecv(cfd))) })
	if err != nil {
		return "", fmt.Errorf("sseConnection.close: %v", err)
	}
	fmt.Fprintf(&b, "/-- `sseConnection.close` (line %d) -/\ndef sseClose : List WStmt := %s\n\n", line(sse, cfd), sgList(cst))

	// ---- sseConnection.keepAlive
	kfd, ok := sse.funcs["sseConnection.keepAlive"]
	if !ok {
		return "", fmt.Errorf("sse.go: sseConnection.keepAlive not found")
	}
	krecv := sgRecv(kfd)
	if len(kfd.Body.List) != 1 {
		return "", fmt.Errorf("sseConnection.keepAlive: body is not a single loop")
	}
	arms, err := sgSelectArms(kfd)
	if err != nil {
		return "", fmt.Errorf("sseConnection.keepAlive: %v", err)
	}
	var karms []string
	for _, a := range arms {
		var ch string
		switch sgRecvChan(a) {
		case krecv + ".ctx.Done()":
			ch = ".ctxDone"
		case krecv + ".keepAliveTicker.C":
			ch = ".tick"
		default:
			return "", fmt.Errorf("sseConnection.keepAlive: select arm %s not understood", sgRecvChan(a))
		}
		var body []string
		for _, st := range a.Body {
			// `c.write(func() { fmt.Fprintf(w, ": ping…") })`
			if es, ok := st.(*ast.ExprStmt); ok {
				if n, c := sgCall(es.X); c != nil && n == krecv+".write" && len(c.Args) == 1 {
					fl, ok := c.Args[0].(*ast.FuncLit)
					lits, _ := sfPrints(c)
					if ok && len(fl.Body.List) == 1 && len(lits) == 1 && strings.Contains(lits[0], "ping") {
						body = append(body, ".pingViaWrite")
						continue
					}
					return "", fmt.Errorf("sseConnection.keepAlive: c.write argument not understood")
				}
			}
			ss, err := sgStmts([]ast.Stmt{st}, krecv, "", func(ast.Expr) (string, error) { return "", fmt.Errorf("condition in keepAlive") })
			if err != nil {
				return "", fmt.Errorf("sseConnection.keepAlive: %v", err)
			}
			body = append(body, ss...)
		}
		karms = append(karms, "(Chan"+ch+", "+sgList(body)+")")
	}
	fmt.Fprintf(&b, "/-- `sseConnection.keepAlive` (line %d): arms of `for { select { … } }` -/\ndef sseKeepAlive : List (Chan × List WStmt) := %s\n\n", line(sse, kfd), sgList(karms))

	// ---- SSE.Do: the last c.write and the deferred close
	dfd, ok := sse.funcs["SSE.Do"]
	if !ok {
		return "", fmt.Errorf("sse.go: SSE.Do not found")
	}
	var conn string
	deferClose := false
	for _, st := range dfd.Body.List {
		if d, ok := st.(*ast.DeferStmt); ok && strings.HasSuffix(sfSel(d.Call.Fun), ".close") && len(d.Call.Args) == 0 {
			conn = strings.TrimSuffix(sfSel(d.Call.Fun), ".close")
			deferClose = true
		}
	}
	if !deferClose {
		return "", fmt.Errorf("SSE.Do: no `defer c.close()` among its top-level statements")
	}
	last, ok := dfd.Body.List[len(dfd.Body.List)-1].(*ast.ExprStmt)
	if !ok {
		return "", fmt.Errorf("SSE.Do: last statement is not a call")
	}
	n, lc := sgCall(last.X)
	if lc == nil || n != conn+".write" || len(lc.Args) != 1 {
		return "", fmt.Errorf("SSE.Do: last statement is not %s.write(func(){…})", conn)
	}
	fl, ok := lc.Args[0].(*ast.FuncLit)
	if !ok {
		return "", fmt.Errorf("SSE.Do: last write is not given a func literal")
	}
	var comp []string
	for _, st := range fl.Body.List {
		if es, ok := st.(*ast.ExprStmt); ok {
			if lits, _ := sfPrints(es); len(lits) == 1 && strings.Contains(lits[0], "complete") {
				comp = append(comp, ".writeComplete")
				continue
			}
		}
		ss, err := sgStmts([]ast.Stmt{st}, conn, "", func(ast.Expr) (string, error) { return "", fmt.Errorf("condition in the complete write") })
		if err != nil {
			return "", fmt.Errorf("SSE.Do, complete: %v", err)
		}
		comp = append(comp, ss...)
	}
	fmt.Fprintf(&b, "/-- `SSE.Do`: the func literal of its last statement `c.write(func() { … })` (line %d) -/\ndef sseComplete : List WStmt := %s\n\n", line(sse, last), sgList(comp))
	fmt.Fprintf(&b, "/-- `defer c.close()` is a top-level statement of `SSE.Do` -/\ndef sseCloseDeferred : Bool := true\n\n")

	// ---- multipartResponseAggregator.flush: the early return
	ffd, ok := mp.funcs["multipartResponseAggregator.flush"]
	if !ok {
		return "", fmt.Errorf("http_multipart_mixed.go: multipartResponseAggregator.flush not found")
	}
	frecv := sgRecv(ffd)
	mpAtom := func(e ast.Expr) string {
		if l, r, op, ok := sgCmp(e); ok {
			if (l == frecv+".initialResponse" && r == "nil") || (r == frecv+".initialResponse" && l == "nil") {
				if op == token.EQL {
					return ".initNil"
				}
				return "(.not .initNil)"
			}
			if (l == "len("+frecv+".deferResponses)" && r == "0") || (r == "len("+frecv+".deferResponses)" && l == "0") {
				if op == token.EQL {
					return ".noDeferred"
				}
				return "(.not .noDeferred)"
			}
		}
		return ""
	}
	var guard string
	nIf := 0
	for i, st := range ffd.Body.List {
		ifs, ok := st.(*ast.IfStmt)
		if !ok || !sgIsReturnOnly(ifs.Body) || ifs.Else != nil {
			continue
		}
		nIf++
		if i != 2 || !sfIsLockCall(ffd.Body.List[0]) {
			return "", fmt.Errorf("multipartResponseAggregator.flush: the early return is not the first statement after Lock / defer Unlock")
		}
		g, err := sgCond(ifs.Cond, mpAtom)
		if err != nil {
			return "", fmt.Errorf("multipartResponseAggregator.flush: early return: %v", err)
		}
		guard = g
	}
	if nIf != 1 {
		return "", fmt.Errorf("multipartResponseAggregator.flush: %d top-level `if … { return }`, want 1", nIf)
	}
	fmt.Fprintf(&b, "/-- `multipartResponseAggregator.flush` (line %d): condition of its early return -/\ndef mpFlushGuard : FCond := %s\n\n", line(mp, ffd), guard)

	// ---- the ticker goroutine of newMultipartResponseAggregator
	nfd, ok := mp.funcs["newMultipartResponseAggregator"]
	if !ok {
		return "", fmt.Errorf("http_multipart_mixed.go: newMultipartResponseAggregator not found")
	}
	var agg string
	for _, st := range nfd.Body.List {
		if as, ok := st.(*ast.AssignStmt); ok && as.Tok == token.DEFINE && len(as.Lhs) == 1 {
			agg = sfSel(as.Lhs[0])
			break
		}
	}
	marms, err := sgSelectArms(nfd)
	if err != nil {
		return "", fmt.Errorf("newMultipartResponseAggregator: %v", err)
	}
	var tarms []string
	for _, a := range marms {
		var ch string
		switch c := sgRecvChan(a); {
		case c == agg+".done":
			ch = ".done"
		case strings.HasSuffix(c, ".C"):
			ch = ".tick"
		default:
			return "", fmt.Errorf("newMultipartResponseAggregator: select arm %s not understood", c)
		}
		body, err := sgStmts(a.Body, agg, "", func(ast.Expr) (string, error) { return "", fmt.Errorf("condition in the ticker goroutine") })
		if err != nil {
			return "", fmt.Errorf("newMultipartResponseAggregator: %v", err)
		}
		tarms = append(tarms, "(Chan"+ch+", "+sgList(body)+")")
	}
	fmt.Fprintf(&b, "/-- the goroutine of `newMultipartResponseAggregator` (line %d): arms of `for { select { … } }` -/\ndef mpTicker : List (Chan × List WStmt) := %s\n\n", line(mp, nfd), sgList(tarms))

	// ---- Done
	ofd, ok := mp.funcs["multipartResponseAggregator.Done"]
	if !ok {
		return "", fmt.Errorf("http_multipart_mixed.go: multipartResponseAggregator.Done not found")
	}
	ost, err := sgStmts(ofd.Body.List, sgRecv(ofd), "", func(ast.Expr) (string, error) { return "", fmt.Errorf("condition in Done") })
	if err != nil {
		return "", fmt.Errorf("multipartResponseAggregator.Done: %v", err)
	}
	fmt.Fprintf(&b, "/-- `multipartResponseAggregator.Done` (line %d) -/\ndef mpDone : List WStmt := %s\n\n", line(mp, ofd), sgList(ost))

	// ---- no context anywhere in the aggregator
	uses := false
	for _, name := range []string{"multipartResponseAggregator.Add", "multipartResponseAggregator.flush", "multipartResponseAggregator.Done", "newMultipartResponseAggregator"} {
		fd, ok := mp.funcs[name]
		if !ok {
			return "", fmt.Errorf("http_multipart_mixed.go: %s not found", name)
		}
		ast.Inspect(fd, func(m ast.Node) bool {
			switch x := m.(type) {
			case *ast.Ident:
				if x.Name == "ctx" || x.Name == "context" || x.Name == "Context" {
					uses = true
				}
			case *ast.SelectorExpr:
				if x.Sel.Name == "Context" || x.Sel.Name == "Err" {
					uses = true
				}
			}
			return true
		})
	}
	fmt.Fprintf(&b, "/-- `Add` / `flush` / `Done` / the ticker goroutine of the aggregator mention a context -/\ndef mpAggUsesCtx : Bool := %v\n\n", uses)
	b.WriteString("end GqlgenVerif.Gen.StreamGuard\n")
	return b.String(), nil
}
