package main

import (
	"fmt"
	"go/ast"
	"go/parser"
	"go/token"
	"path/filepath"
	"strings"
)

// GenerateSteps (C18): the top-level statements of api.Generate (api/generate.go), in source order, as the list of
// steps that touch the project tree. Running generation again on a generated tree changes nothing only because the
// previous exec / models output is unlinked BEFORE anything reads the project's Go packages (cfg.Init: autobind and
// the package preload; codegen.BuildData: the binder) - a models_gen.go that is still there when autobind runs gets
// its types bound as "user defined", and modelgen then no longer emits them.
//
//	_ = syscall.Unlink(cfg.Exec.Filename)                                     → .unlinkExec
//	if cfg.Model.IsDefined() { _ = syscall.Unlink(cfg.Model.Filename) }       → .unlinkModel
//	cfg.LoadSchema()                                                          → .loadSchema      (schema sources only)
//	…InjectSource(s)Early / Late…                                             → .injectSources
//	cfg.Init()                                                                → .init            (READS Go packages)
//	…MutateSchema…                                                            → .mutateSchema
//	…MutateConfig…                                                            → .mutateConfig    (modelgen WRITES the models file)
//	codegen.BuildData(…)                                                      → .buildData       (READS Go packages)
//	…p.GenerateCode(data)…                                                    → .pluginCode      (WRITES resolver / federation files)
//	codegen.GenerateCode(data)                                                → .generateCode    (WRITES the exec file)
//	cfg.Packages.ModTidy() / validate(cfg)                                    → .modTidy / .validate
//	statements that only build the plugin list / options                      → .setup
//
// A statement that contains two different markers, a marker the table does not know, or (for .setup) a call outside
// the allow-list becomes `.other "<source>"`, which `steps_recognised` (Props/C18Run.lean) does not accept.
func init() { extractors["GenerateSteps"] = extractGenerateSteps }

var gsSetupCalls = map[string]bool{
	"append": true, "make": true, "len": true, "modelgen.New": true, "resolvergen.New": true, "federation.New": true,
	"fmt.Errorf": true, "urlRegex.FindStringSubmatch": true, "versionRegex.FindStringSubmatch": true, "o": true,
	"p.Name": true, "cfg.Model.IsDefined": true, "cfg.Federation.IsDefined": true,
}

func gsClassify(fset *token.FileSet, st ast.Stmt) string {
	marks := map[string]bool{}
	var unknown []string
	ast.Inspect(st, func(n ast.Node) bool {
		call, ok := n.(*ast.CallExpr)
		if !ok {
			return true
		}
		fs := mrNodeStr(fset, call.Fun)
		last := fs
		if i := strings.LastIndex(fs, "."); i >= 0 {
			last = fs[i+1:]
		}
		switch {
		case fs == "syscall.Unlink" || fs == "os.Remove" || fs == "os.RemoveAll":
			arg := ""
			if len(call.Args) > 0 {
				arg = mrNodeStr(fset, call.Args[0])
			}
			switch arg {
			case "cfg.Exec.Filename":
				marks["unlinkExec"] = true
			case "cfg.Model.Filename":
				marks["unlinkModel"] = true
			default:
				unknown = append(unknown, fs+"("+arg+")")
			}
		case fs == "cfg.Init":
			marks["init"] = true
		case fs == "cfg.LoadSchema":
			marks["loadSchema"] = true
		case strings.HasPrefix(last, "InjectSource"):
			marks["injectSources"] = true
		case last == "MutateSchema":
			marks["mutateSchema"] = true
		case last == "MutateConfig":
			marks["mutateConfig"] = true
		case fs == "codegen.BuildData":
			marks["buildData"] = true
		case fs == "codegen.GenerateCode":
			marks["generateCode"] = true
		case last == "GenerateCode":
			marks["pluginCode"] = true
		case last == "ModTidy":
			marks["modTidy"] = true
		case fs == "validate":
			marks["validate"] = true
		case gsSetupCalls[fs]:
		default:
			unknown = append(unknown, fs)
		}
		return true
	})
	src := strings.Join(strings.Fields(mrNodeStr(fset, st)), " ")
	if len(src) > 120 {
		src = src[:120]
	}
	// fmt.Errorf / p.Name in the error branches of a marked statement are fine; anything else is not
	if len(unknown) > 0 || len(marks) > 1 {
		return ".other " + kwLeanStr(src)
	}
	for m := range marks {
		return "." + m
	}
	return ".setup"
}

func extractGenerateSteps(repo string) (string, error) {
	fset := token.NewFileSet()
	path := filepath.Join(repo, "api", "generate.go")
	f, err := parser.ParseFile(fset, path, nil, 0)
	if err != nil {
		return "", err
	}
	var fd *ast.FuncDecl
	for _, d := range f.Decls {
		if x, ok := d.(*ast.FuncDecl); ok && x.Name.Name == "Generate" && x.Recv == nil {
			fd = x
		}
	}
	if fd == nil || fd.Body == nil {
		return "", fmt.Errorf("func Generate not found in %s", path)
	}
	var steps []string
	for _, st := range fd.Body.List {
		steps = append(steps, fmt.Sprintf("%s /- line %d -/", gsClassify(fset, st), fset.Position(st.Pos()).Line))
	}
	has := func(s string) bool {
		for _, x := range steps {
			if strings.HasPrefix(x, s+" ") {
				return true
			}
		}
		return false
	}
	for _, need := range []string{".init", ".mutateConfig", ".buildData", ".generateCode"} {
		if !has(need) {
			return "", fmt.Errorf("api.Generate: no statement recognised as %s - the extractor no longer understands the function", need)
		}
	}
	var b strings.Builder
	b.WriteString("import GqlgenVerif.Model.Regenerate\n")
	b.WriteString("/-! The top-level statements of `api.Generate` in source order (go/extract/generatesteps.go). -/\n")
	b.WriteString("namespace GqlgenVerif.Gen.GenerateSteps\nopen GqlgenVerif.Regenerate\n\n")
	b.WriteString("def steps : List Step := [\n  " + strings.Join(steps, ",\n  ") + "\n]\n\nend GqlgenVerif.Gen.GenerateSteps\n")
	return b.String(), nil
}
