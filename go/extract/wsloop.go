package main

import (
	"fmt"
	"go/ast"
	"go/parser"
	"go/token"
	"os"
	"path/filepath"
	"sort"
	"strings"
)

// WsLoop (C07): the lifetime of the variable that holds the client's message in the websocket read loop.
//
// (*wsConnection).run reads one message per iteration and hands its ADDRESS to c.subscribe, whose operation
// goroutine keeps reading msg.id for every frame it sends and for releasing the id. That is only sound if each
// iteration has its own variable (`m, err := c.me.NextMessage()` inside the loop body); one variable for the whole
// loop makes every later message of the connection overwrite what a running operation reads.
//
//	(a) the read loop of run: the variable assigned from `c.me.NextMessage()`, whether it is declared by that
//	    statement inside the loop body (per iteration), which calls of the loop receive its address, and for
//	    each such callee (a method of the package) whether it starts a goroutine that uses the pointer parameter;
//	(b) package-wide (transport, non-test files): variables declared outside a loop and assigned inside it whose
//	    address is passed to such a retaining callee inside the loop, or which a `go func(){…}` inside the loop
//	    captures.
//
// Fails (broken tie) if run has no `for` loop that reads `c.me.NextMessage()`.
func init() { extractors["WsLoop"] = extractWsLoop }

// wlRetains: for each function of the package, the indices of pointer parameters that a goroutine started in the
// function mentions
func wlRetains(fd *ast.FuncDecl) map[int]bool {
	out := map[int]bool{}
	idx := 0
	names := map[string]int{}
	for _, p := range fd.Type.Params.List {
		for _, n := range p.Names {
			if _, ok := p.Type.(*ast.StarExpr); ok {
				names[n.Name] = idx
			}
			idx++
		}
	}
	ast.Inspect(fd.Body, func(n ast.Node) bool {
		if g, ok := n.(*ast.GoStmt); ok {
			ast.Inspect(g.Call, func(m ast.Node) bool {
				if id, ok := m.(*ast.Ident); ok {
					if i, ok := names[id.Name]; ok {
						out[i] = true
					}
				}
				return true
			})
		}
		return true
	})
	return out
}

func wlCalleeName(c *ast.CallExpr) string {
	switch f := c.Fun.(type) {
	case *ast.Ident:
		return f.Name
	case *ast.SelectorExpr:
		return f.Sel.Name
	}
	return ""
}

func extractWsLoop(repo string) (string, error) {
	fset := token.NewFileSet()
	dir := filepath.Join(repo, "graphql", "handler", "transport")
	pkgs, err := parser.ParseDir(fset, dir, func(fi os.FileInfo) bool { return !strings.HasSuffix(fi.Name(), "_test.go") }, 0)
	if err != nil {
		return "", err
	}
	var files []*ast.File
	for _, p := range pkgs {
		if p.Name != "transport" {
			continue
		}
		var names []string
		for n := range p.Files {
			names = append(names, n)
		}
		sort.Strings(names)
		for _, n := range names {
			files = append(files, p.Files[n])
		}
	}
	retains := map[string]map[int]bool{} // by function / method name (names are unique enough in this package; merged if not)
	var run *ast.FuncDecl
	var funcs []*ast.FuncDecl
	for _, f := range files {
		for _, d := range f.Decls {
			fd, ok := d.(*ast.FuncDecl)
			if !ok || fd.Body == nil {
				continue
			}
			funcs = append(funcs, fd)
			r := wlRetains(fd)
			if retains[fd.Name.Name] == nil {
				retains[fd.Name.Name] = map[int]bool{}
			}
			for i := range r {
				retains[fd.Name.Name][i] = true
			}
			if fd.Name.Name == "run" && fd.Recv != nil && strings.Contains(prSrc(fset, fd.Recv.List[0].Type), "wsConnection") {
				run = fd
			}
		}
	}
	if run == nil {
		return "", fmt.Errorf("(*wsConnection).run not found")
	}
	// declaredOutside: is the variable `id` refers to declared outside the loop body?
	declaredOutside := func(id *ast.Ident, loop ast.Node) bool {
		if id.Obj == nil || id.Obj.Decl == nil {
			return false
		}
		d, ok := id.Obj.Decl.(ast.Node)
		if !ok {
			return false
		}
		return d.Pos() < loop.Pos() || d.Pos() >= loop.End()
	}
	loopBody := func(n ast.Node) *ast.BlockStmt {
		switch l := n.(type) {
		case *ast.ForStmt:
			return l.Body
		case *ast.RangeStmt:
			return l.Body
		}
		return nil
	}
	// ---- (a) the read loop
	var loop *ast.ForStmt
	var readStmt *ast.AssignStmt
	ast.Inspect(run.Body, func(n ast.Node) bool {
		fs, ok := n.(*ast.ForStmt)
		if !ok || loop != nil {
			return true
		}
		for _, st := range fs.Body.List {
			if as, ok := st.(*ast.AssignStmt); ok && len(as.Rhs) == 1 {
				if c, ok := as.Rhs[0].(*ast.CallExpr); ok && strings.HasSuffix(sfSel(c.Fun), ".NextMessage") && len(as.Lhs) >= 1 {
					loop, readStmt = fs, as
				}
			}
		}
		return true
	})
	if loop == nil {
		return "", fmt.Errorf("(*wsConnection).run: no `for` loop whose body reads c.me.NextMessage()")
	}
	msgVar, ok := readStmt.Lhs[0].(*ast.Ident)
	if !ok {
		return "", fmt.Errorf("run: the message is not read into a plain variable: %s", prSrc(fset, readStmt))
	}
	perIter := readStmt.Tok == token.DEFINE && !declaredOutside(msgVar, loop.Body)
	var passed []string
	retained := false
	ast.Inspect(loop.Body, func(n ast.Node) bool {
		c, ok := n.(*ast.CallExpr)
		if !ok {
			return true
		}
		for i, a := range c.Args {
			if u, ok := a.(*ast.UnaryExpr); ok && u.Op == token.AND {
				if id, ok := u.X.(*ast.Ident); ok && id.Name == msgVar.Name {
					r := retains[wlCalleeName(c)][i]
					passed = append(passed, fmt.Sprintf("(%q, %v)", wlCalleeName(c), r))
					retained = retained || r
				}
			}
		}
		return true
	})
	// ---- (b) package-wide
	var carried []string
	for _, fd := range funcs {
		ast.Inspect(fd.Body, func(n ast.Node) bool {
			body := loopBody(n)
			if body == nil {
				return true
			}
			assigned := map[string]bool{} // declared outside, assigned (=) inside
			ast.Inspect(body, func(m ast.Node) bool {
				if as, ok := m.(*ast.AssignStmt); ok && as.Tok == token.ASSIGN {
					for _, l := range as.Lhs {
						if id, ok := l.(*ast.Ident); ok && id.Name != "_" && declaredOutside(id, body) && id.Obj != nil && id.Obj.Kind == ast.Var {
							assigned[id.Name] = true
						}
					}
				}
				return true
			})
			if len(assigned) == 0 {
				return true
			}
			seen := map[string]bool{}
			ast.Inspect(body, func(m ast.Node) bool {
				switch x := m.(type) {
				case *ast.CallExpr:
					for i, a := range x.Args {
						if u, ok := a.(*ast.UnaryExpr); ok && u.Op == token.AND {
							if id, ok := u.X.(*ast.Ident); ok && assigned[id.Name] && declaredOutside(id, body) && retains[wlCalleeName(x)][i] && !seen[id.Name] {
								seen[id.Name] = true
								carried = append(carried, fmt.Sprintf("(%q, %q)", fd.Name.Name, id.Name))
							}
						}
					}
				case *ast.GoStmt:
					if fl, ok := x.Call.Fun.(*ast.FuncLit); ok {
						ast.Inspect(fl.Body, func(k ast.Node) bool {
							if id, ok := k.(*ast.Ident); ok && assigned[id.Name] && declaredOutside(id, body) && !seen[id.Name] {
								seen[id.Name] = true
								carried = append(carried, fmt.Sprintf("(%q, %q)", fd.Name.Name, id.Name))
							}
							return true
						})
					}
				}
				return true
			})
			return true
		})
	}
	var b strings.Builder
	b.WriteString("import GqlgenVerif.Model.WsLoop\n\nnamespace GqlgenVerif.Gen.WsLoop\n\n")
	fmt.Fprintf(&b, "/-- transport/websocket.go (*wsConnection).run, read loop: `%s` -/\n", strings.ReplaceAll(prSrc(fset, readStmt), "-/", "- /"))
	fmt.Fprintf(&b, "def msgVar : String := %q\n\n", msgVar.Name)
	b.WriteString("/-- the variable is declared by that statement inside the loop body: every iteration has its own -/\n")
	fmt.Fprintf(&b, "def msgVarPerIteration : Bool := %v\n\n", perIter)
	b.WriteString("/-- calls of the read loop that receive the ADDRESS of the message: (callee, the callee starts a goroutine that uses that pointer) -/\n")
	b.WriteString("def msgAddrPassedTo : List (String × Bool) := [" + strings.Join(passed, ", ") + "]\n\n")
	b.WriteString("/-- package transport: variables declared outside a loop and assigned inside it that a goroutine started from the loop keeps using: (function, variable) -/\n")
	b.WriteString("def loopCarriedEscapes : List (String × String) := [" + strings.Join(carried, ", ") + "]\n\n")
	b.WriteString("/-- what a running operation's `msg` pointer refers to when a later message arrives: its own cell, or the one cell every message is read into -/\n")
	mode := ".ownCell"
	if !perIter && retained {
		mode = ".sharedCell"
	}
	fmt.Fprintf(&b, "def cells : GqlgenVerif.WsLoop.Cells := %s\n\nend GqlgenVerif.Gen.WsLoop\n", mode)
	return b.String(), nil
}
