package main

import (
	"fmt"
	"go/ast"
	"go/token"
	"path/filepath"
	"strings"
)

// StreamLoop (C12): which responses the two streaming transports hand to their writers.
//
//	(a) transport/util.go nextResponse: the literals of `return next(ctx), false` and of the
//	    assignment in the deferred recover (`resp, panicked = &graphql.Response{…}, true`);
//	(b) the body of `for { response, panicked := nextResponse(ctx, rc, responses); … }` in
//	    MultipartMixed.Do and SSE.Do, statement by statement, in the vocabulary of
//	    Model/StreamLoop.lean (`if cond { break }`, deliver, `initialResponse = false`, other);
//	(c) what surrounds the loop: `initialResponse := true` before it and `defer a.Done(w)` (multipart),
//	    the `c.write(func() { fmt.Fprint(w, "event: complete…"); … })` that ends SSE.Do.
//
// Fails (broken tie) on any statement in those loops it cannot translate.
func init() { extractors["StreamLoop"] = extractStreamLoop }

type slLoop struct {
	resp, pan, flag string
	stmts           []string
	src             []string
}

func slCond(e ast.Expr, resp, pan string) (string, error) {
	switch x := e.(type) {
	case *ast.ParenExpr:
		return slCond(x.X, resp, pan)
	case *ast.Ident:
		if x.Name == pan {
			return ".panicked", nil
		}
	case *ast.UnaryExpr:
		if x.Op == token.NOT {
			c, err := slCond(x.X, resp, pan)
			if err != nil {
				return "", err
			}
			return "(.not " + c + ")", nil
		}
	case *ast.BinaryExpr:
		switch x.Op {
		case token.EQL, token.NEQ:
			l, r := sfSel(x.X), sfSel(x.Y)
			if (l == resp && r == "nil") || (l == "nil" && r == resp) {
				if x.Op == token.EQL {
					return ".respNil", nil
				}
				return "(.not .respNil)", nil
			}
			if (l == pan && (r == "true" || r == "false")) || (r == pan && (l == "true" || l == "false")) {
				lit := r
				if l != pan {
					lit = l
				}
				if (lit == "true") == (x.Op == token.EQL) {
					return ".panicked", nil
				}
				return "(.not .panicked)", nil
			}
		case token.LOR, token.LAND:
			a, err := slCond(x.X, resp, pan)
			if err != nil {
				return "", err
			}
			b, err := slCond(x.Y, resp, pan)
			if err != nil {
				return "", err
			}
			op := ".or"
			if x.Op == token.LAND {
				op = ".and"
			}
			return "(" + op + " " + a + " " + b + ")", nil
		}
	}
	return "", fmt.Errorf("condition not over (%s == nil, %s)", resp, pan)
}

// slMentions: does the node mention identifier name?
func slMentions(n ast.Node, name string) bool {
	found := false
	ast.Inspect(n, func(m ast.Node) bool {
		if id, ok := m.(*ast.Ident); ok && id.Name == name {
			found = true
		}
		return !found
	})
	return found
}

func slHasBranch(n ast.Node) bool {
	found := false
	ast.Inspect(n, func(m ast.Node) bool {
		switch m.(type) {
		case *ast.BranchStmt, *ast.ReturnStmt, *ast.GoStmt, *ast.DeferStmt:
			found = true
		case *ast.FuncLit:
			return false
		}
		return !found
	})
	return found
}

// slFindLoop: the unique `for { x, y := nextResponse(…); … }` of fn
func slFindLoop(f *sfFile, fn string, deliver func(c *ast.CallExpr, resp string) (ok bool, flag string)) (*slLoop, *ast.ForStmt, error) {
	fd, ok := f.funcs[fn]
	if !ok {
		return nil, nil, fmt.Errorf("function %s not found", fn)
	}
	var loops []*ast.ForStmt
	ast.Inspect(fd, func(m ast.Node) bool {
		if fs, ok := m.(*ast.ForStmt); ok && len(fs.Body.List) > 0 {
			if as, ok := fs.Body.List[0].(*ast.AssignStmt); ok && len(as.Rhs) == 1 {
				if c, ok := as.Rhs[0].(*ast.CallExpr); ok && sfSel(c.Fun) == "nextResponse" {
					loops = append(loops, fs)
				}
			}
		}
		return true
	})
	calls := 0
	ast.Inspect(fd, func(m ast.Node) bool {
		if c, ok := m.(*ast.CallExpr); ok && sfSel(c.Fun) == "nextResponse" {
			calls++
		}
		return true
	})
	if len(loops) != 1 || calls != 1 {
		return nil, nil, fmt.Errorf("%s: expected exactly one `for { response, panicked := nextResponse(…) … }` (found %d loops, %d calls of nextResponse)", fn, len(loops), calls)
	}
	fs := loops[0]
	if fs.Init != nil || fs.Cond != nil || fs.Post != nil {
		return nil, nil, fmt.Errorf("%s: the response loop is not a bare `for { }`", fn)
	}
	as := fs.Body.List[0].(*ast.AssignStmt)
	if as.Tok != token.DEFINE || len(as.Lhs) != 2 {
		return nil, nil, fmt.Errorf("%s: first statement of the loop is not `response, panicked := nextResponse(…)`", fn)
	}
	l := &slLoop{resp: sfSel(as.Lhs[0]), pan: sfSel(as.Lhs[1])}
	line := func(n ast.Node) int { return f.fset.Position(n.Pos()).Line }
	for _, st := range fs.Body.List[1:] {
		var tr string
		switch x := st.(type) {
		case *ast.IfStmt:
			isBreak := len(x.Body.List) == 1
			if isBreak {
				b, ok := x.Body.List[0].(*ast.BranchStmt)
				isBreak = ok && b.Tok == token.BREAK && b.Label == nil
			}
			if x.Init != nil || x.Else != nil || !isBreak {
				return nil, nil, fmt.Errorf("%s line %d: `if` in the response loop is not `if cond { break }`", fn, line(st))
			}
			c, err := slCond(x.Cond, l.resp, l.pan)
			if err != nil {
				return nil, nil, fmt.Errorf("%s line %d: %v", fn, line(st), err)
			}
			tr = ".brk " + c
		case *ast.ExprStmt:
			c, ok := x.X.(*ast.CallExpr)
			if !ok {
				return nil, nil, fmt.Errorf("%s line %d: unrecognised statement in the response loop", fn, line(st))
			}
			if ok, flag := deliver(c, l.resp); ok {
				if flag != "" {
					if l.flag != "" && l.flag != flag {
						return nil, nil, fmt.Errorf("%s line %d: two different initial-response flags", fn, line(st))
					}
					l.flag = flag
				}
				tr = ".deliver"
			} else if !slMentions(c, l.resp) && !slMentions(c, l.pan) && !slHasBranch(c) {
				tr = ".other"
			} else {
				return nil, nil, fmt.Errorf("%s line %d: call in the response loop uses the response in a way the extractor does not know", fn, line(st))
			}
		case *ast.AssignStmt:
			if x.Tok == token.ASSIGN && len(x.Lhs) == 1 && len(x.Rhs) == 1 && sfSel(x.Rhs[0]) == "false" && sfSel(x.Lhs[0]) != "?" &&
				sfSel(x.Lhs[0]) != l.resp && sfSel(x.Lhs[0]) != l.pan {
				if l.flag != "" && l.flag != sfSel(x.Lhs[0]) {
					return nil, nil, fmt.Errorf("%s line %d: assignment to %s, the flag handed to the writer is %s", fn, line(st), sfSel(x.Lhs[0]), l.flag)
				}
				l.flag = sfSel(x.Lhs[0])
				tr = ".clearInitial"
			} else {
				return nil, nil, fmt.Errorf("%s line %d: unrecognised assignment in the response loop", fn, line(st))
			}
		default:
			return nil, nil, fmt.Errorf("%s line %d: unrecognised statement in the response loop", fn, line(st))
		}
		l.stmts = append(l.stmts, tr)
		l.src = append(l.src, fmt.Sprintf("%d %s", line(st), tr))
	}
	return l, fs, nil
}

func extractStreamLoop(repo string) (string, error) {
	dir := filepath.Join(repo, "graphql", "handler", "transport")
	util, err := sfParse(filepath.Join(dir, "util.go"))
	if err != nil {
		return "", err
	}
	sse, err := sfParse(filepath.Join(dir, "sse.go"))
	if err != nil {
		return "", err
	}
	mp, err := sfParse(filepath.Join(dir, "http_multipart_mixed.go"))
	if err != nil {
		return "", err
	}
	var b strings.Builder
	b.WriteString("import GqlgenVerif.Model.StreamLoop\nnamespace GqlgenVerif.Gen.StreamLoop\nopen GqlgenVerif.StreamLoop\n\n")

	// ---- (a) nextResponse
	nr, ok := util.funcs["nextResponse"]
	if !ok {
		return "", fmt.Errorf("util.go: nextResponse not found")
	}
	bad := func(msg string) (string, error) { return "", fmt.Errorf("nextResponse: %s", msg) }
	var results []string
	if nr.Type.Results != nil {
		for _, f := range nr.Type.Results.List {
			for _, n := range f.Names {
				results = append(results, n.Name)
			}
		}
	}
	var params []string
	for _, f := range nr.Type.Params.List {
		for _, n := range f.Names {
			params = append(params, n.Name)
		}
	}
	if len(results) != 2 || len(params) != 3 || len(nr.Body.List) != 2 {
		return bad("expected `func(ctx, rc, next) (resp, panicked) { defer func(){…}(); return next(ctx), <bool> }`")
	}
	boolLit := func(e ast.Expr) (bool, bool) {
		switch sfSel(e) {
		case "true":
			return true, true
		case "false":
			return false, true
		}
		return false, false
	}
	ret, ok := nr.Body.List[1].(*ast.ReturnStmt)
	if !ok || len(ret.Results) != 2 {
		return bad("second statement is not `return next(ctx), <bool>`")
	}
	rc, ok := ret.Results[0].(*ast.CallExpr)
	if !ok || sfSel(rc.Fun) != params[2] {
		return bad("the normal return does not return the handler's response `" + params[2] + "(ctx)`")
	}
	normalPan, ok := boolLit(ret.Results[1])
	if !ok {
		return bad("second result of the normal return is not a bool literal")
	}
	df, ok := nr.Body.List[0].(*ast.DeferStmt)
	if !ok {
		return bad("first statement is not a defer")
	}
	fl, ok := df.Call.Fun.(*ast.FuncLit)
	if !ok || len(fl.Body.List) != 1 {
		return bad("deferred call is not `func() { if r := recover(); r != nil {…} }()`")
	}
	ifs, ok := fl.Body.List[0].(*ast.IfStmt)
	if !ok || ifs.Init == nil || ifs.Else != nil {
		return bad("deferred function is not a single `if r := recover(); r != nil {…}`")
	}
	ia, ok := ifs.Init.(*ast.AssignStmt)
	if !ok || len(ia.Rhs) != 1 || len(ia.Lhs) != 1 {
		return bad("`if` init is not `r := recover()`")
	}
	if c, ok := ia.Rhs[0].(*ast.CallExpr); !ok || sfSel(c.Fun) != "recover" {
		return bad("`if` init is not `r := recover()`")
	}
	if be, ok := ifs.Cond.(*ast.BinaryExpr); !ok || be.Op != token.NEQ || sfSel(be.X) != sfSel(ia.Lhs[0]) || sfSel(be.Y) != "nil" {
		return bad("recover condition is not `r != nil`")
	}
	// the last top-level statement of the recover branch assigns both results; no return / branch inside
	if len(ifs.Body.List) == 0 {
		return bad("empty recover branch")
	}
	for _, st := range ifs.Body.List {
		if slHasBranch(st) {
			return bad("recover branch contains a return / branch")
		}
	}
	var assigns []*ast.AssignStmt
	ast.Inspect(ifs.Body, func(m ast.Node) bool {
		if as, ok := m.(*ast.AssignStmt); ok {
			for _, l := range as.Lhs {
				if sfSel(l) == results[0] || sfSel(l) == results[1] {
					assigns = append(assigns, as)
					break
				}
			}
		}
		return true
	})
	last, _ := ifs.Body.List[len(ifs.Body.List)-1].(*ast.AssignStmt)
	if len(assigns) != 1 || assigns[0] != last || len(last.Lhs) != 2 || len(last.Rhs) != 2 ||
		sfSel(last.Lhs[0]) != results[0] || sfSel(last.Lhs[1]) != results[1] {
		return bad("the recover branch does not end with its only assignment `" + results[0] + ", " + results[1] + " = …, …`")
	}
	recResp := false
	switch x := last.Rhs[0].(type) {
	case *ast.UnaryExpr:
		cl, ok := x.X.(*ast.CompositeLit)
		if !ok || x.Op != token.AND || sfSel(cl.Type) != "graphql.Response" {
			return bad("recover branch: response is not `&graphql.Response{…}`")
		}
		for _, el := range cl.Elts {
			if kv, ok := el.(*ast.KeyValueExpr); ok && sfSel(kv.Key) == "Errors" {
				recResp = true
			}
		}
	case *ast.Ident:
		if x.Name != "nil" {
			return bad("recover branch: response is neither `&graphql.Response{…}` nor nil")
		}
	default:
		return bad("recover branch: response is neither `&graphql.Response{…}` nor nil")
	}
	recPan, ok := boolLit(last.Rhs[1])
	if !ok {
		return bad("recover branch: panicked is not a bool literal")
	}
	fmt.Fprintf(&b, "/-- transport/util.go `nextResponse`: `return %s(ctx), %v`; recover branch (line %d): response %s, panicked = %v -/\ndef nextFacts : NextFacts := ⟨%v, %v, %v⟩\n\n",
		params[2], normalPan, util.fset.Position(last.Pos()).Line,
		map[bool]string{true: "`&graphql.Response{Errors: …}`", false: "nil / without Errors"}[recResp], recPan, normalPan, recPan, recResp)

	// ---- (b) the loops
	mpl, mpFor, err := slFindLoop(mp, "MultipartMixed.Do", func(c *ast.CallExpr, resp string) (bool, string) {
		if strings.HasSuffix(sfSel(c.Fun), ".Add") && len(c.Args) == 2 && sfSel(c.Args[0]) == resp && sfSel(c.Args[1]) != "?" {
			return true, sfSel(c.Args[1])
		}
		return false, ""
	})
	if err != nil {
		return "", err
	}
	ssel, sseFor, err := slFindLoop(sse, "SSE.Do", func(c *ast.CallExpr, resp string) (bool, string) {
		// c.write(func() { writeJsonWithSSE(w, response) })
		if sfSel(c.Fun) != "c.write" || len(c.Args) != 1 {
			return false, ""
		}
		fl, ok := c.Args[0].(*ast.FuncLit)
		if !ok || len(fl.Body.List) != 1 {
			return false, ""
		}
		es, ok := fl.Body.List[0].(*ast.ExprStmt)
		if !ok {
			return false, ""
		}
		in, ok := es.X.(*ast.CallExpr)
		return ok && sfSel(in.Fun) == "writeJsonWithSSE" && len(in.Args) == 2 && sfSel(in.Args[1]) == resp, ""
	})
	if err != nil {
		return "", err
	}
	if ssel.flag != "" {
		return "", fmt.Errorf("SSE.Do: unexpected flag assignment %s in the response loop", ssel.flag)
	}
	fmt.Fprintf(&b, "/-- `MultipartMixed.Do`: body of `for { %s, %s := nextResponse(…); … }` (line, statement): %s -/\ndef mpLoop : List Stmt := [%s]\n\n",
		mpl.resp, mpl.pan, strings.Join(mpl.src, "; "), strings.Join(mpl.stmts, ", "))
	fmt.Fprintf(&b, "/-- `SSE.Do`: body of `for { %s, %s := nextResponse(…); … }` (line, statement): %s -/\ndef sseLoop : List Stmt := [%s]\n\n",
		ssel.resp, ssel.pan, strings.Join(ssel.src, "; "), strings.Join(ssel.stmts, ", "))

	// ---- (c) around the loops
	mpDo := mp.funcs["MultipartMixed.Do"]
	firstInit, firstFound, doneDeferred, loopLast := false, false, false, false
	for i, st := range mpDo.Body.List {
		switch x := st.(type) {
		case *ast.AssignStmt:
			if mpl.flag != "" && len(x.Lhs) == 1 && sfSel(x.Lhs[0]) == mpl.flag && len(x.Rhs) == 1 {
				v, ok := boolLit(x.Rhs[0])
				if !ok || firstFound {
					return "", fmt.Errorf("MultipartMixed.Do: `%s` is not initialised once with a bool literal", mpl.flag)
				}
				firstInit, firstFound = v, true
			}
		case *ast.DeferStmt:
			if strings.HasSuffix(sfSel(x.Call.Fun), ".Done") && st.Pos() < mpFor.Pos() {
				doneDeferred = true
			}
		case *ast.ForStmt:
			if x == mpFor && i == len(mpDo.Body.List)-1 {
				loopLast = true
			}
		}
	}
	if mpl.flag == "" || !firstFound {
		return "", fmt.Errorf("MultipartMixed.Do: no initial-response flag handed to the aggregator / initialised before the loop")
	}
	fmt.Fprintf(&b, "/-- `%s := %v` before the loop of `MultipartMixed.Do` -/\ndef mpFirstInit : Bool := %v\n\n", mpl.flag, firstInit, firstInit)
	fmt.Fprintf(&b, "/-- `defer a.Done(w)` precedes the response loop of `MultipartMixed.Do` and the loop is its last statement\n    (every way out of the loop runs the final flush) -/\ndef mpDoneDeferred : Bool := %v\n\n", doneDeferred && loopLast)
	// SSE.Do: the last top-level statement writes the complete event under the lock and follows the
	// if/else that holds the loop
	sseDo := sse.funcs["SSE.Do"]
	completeLast := false
	if n := len(sseDo.Body.List); n >= 2 {
		if es, ok := sseDo.Body.List[n-1].(*ast.ExprStmt); ok {
			if c, ok := es.X.(*ast.CallExpr); ok && sfSel(c.Fun) == "c.write" && len(c.Args) == 1 {
				lits, _ := sfPrints(c.Args[0])
				completeLast = len(lits) == 1 && strings.HasPrefix(lits[0], "event: complete")
			}
		}
		prev := sseDo.Body.List[n-2]
		if !(prev.Pos() <= sseFor.Pos() && sseFor.End() <= prev.End()) {
			completeLast = false
		}
	}
	fmt.Fprintf(&b, "/-- the statement right after the one holding the response loop is the last of `SSE.Do` and writes the\n    `complete` event inside `c.write` -/\ndef sseCompleteLast : Bool := %v\n\n", completeLast)
	b.WriteString("end GqlgenVerif.Gen.StreamLoop\n")
	return b.String(), nil
}
