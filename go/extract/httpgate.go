package main

import (
	"bytes"
	"fmt"
	"go/ast"
	"go/printer"
	"go/token"
	"strings"
)

// Gate stamps (property C09, part of Gen/HttpStatus.lean): WHICH error value each refusal exit of
//
//	graphql/executor/executor.go   (*Executor).parseQuery             parse error, no operation, validation errors
//	                               (*Executor).CreateOperationContext operation not found, variables do not coerce
//
// hands to the transport, and which `extensions.code` that value carries. The transports choose the status from
// the code of the error they RECEIVE (statusFor over errcode.GetErrorKind), so "errcode.Set is called somewhere in
// the branch" is not the fact that matters: the value that is stamped must be the value that is returned.
//
// Each exit block is run by a tiny abstract interpreter over error values (identity + "is a *gqlerror.Error"):
//
//	x, ok := y.(*gqlerror.Error)        x aliases y and ok = true when y is one, else x = nil, ok = false
//	x = gqlerror.Wrap(..) / Errorf(..)  x is a fresh *gqlerror.Error
//	if ok / if !ok { … }                decided by the scenario
//	errcode.Set(x, errcode.C)           stamps C on the value x denotes - a no-op when that value is not a
//	                                    *gqlerror.Error (errcode.Set's own type assertion; its shape is checked)
//	for _, e := range l { … }           e denotes the elements of l
//	return _, gqlerror.List{x} | l      the exit: the code of the value returned
//
// The parse-error exit is run twice: the parser returned a *gqlerror.Error (syntax error) or a PLAIN error
// (`exceeded token limit`, Server.SetParserTokenLimit). Statements that mention none of the tracked variables
// (timing, cache) are skipped; anything else the interpreter does not know fails the extraction (broken tie).

type gsVal struct {
	id  int // 0 = nil
	gql bool
}

type gsEnv struct {
	x      *hx
	fset   *token.FileSet
	vars   map[string]gsVal
	lists  map[string]int // list variable -> value id standing for its elements
	bools  map[string]bool
	code   map[int]string // value id -> Lean expression of the stamped code
	next   int
	consts map[string]string
}

func (g *gsEnv) src(n ast.Node) string {
	var b bytes.Buffer
	printer.Fprint(&b, g.fset, n)
	return strings.Join(strings.Fields(b.String()), " ")
}

func (g *gsEnv) fresh() gsVal {
	g.next++
	return gsVal{id: g.next, gql: true}
}

func (g *gsEnv) tracked(n ast.Node) bool {
	found := false
	ast.Inspect(n, func(m ast.Node) bool {
		if id, ok := m.(*ast.Ident); ok {
			if _, ok := g.vars[id.Name]; ok {
				found = true
			}
			if _, ok := g.lists[id.Name]; ok {
				found = true
			}
			if _, ok := g.bools[id.Name]; ok {
				found = true
			}
		}
		return !found
	})
	return found
}

func (g *gsEnv) codeExpr(e ast.Expr) (string, bool) {
	n, ok := sel(e, "errcode")
	if !ok {
		return "", false
	}
	v, ok := g.consts[n]
	if !ok {
		return "", false
	}
	if n == "ParseFailed" || n == "ValidationFailed" {
		return n, true
	}
	return fmt.Sprintf("%q", v), true
}

// block runs stmts; returned = an exit was reached, ret = Lean `Option String` of the code the returned error carries.
func (g *gsEnv) block(stmts []ast.Stmt) (ret string, returned bool) {
	for _, st := range stmts {
		switch s := st.(type) {
		case *ast.AssignStmt:
			if len(s.Rhs) == 1 {
				if ta, ok := s.Rhs[0].(*ast.TypeAssertExpr); ok && len(s.Lhs) == 2 && g.src(ta.Type) == "*gqlerror.Error" {
					y, okY := ta.X.(*ast.Ident)
					x, okX := s.Lhs[0].(*ast.Ident)
					b, okB := s.Lhs[1].(*ast.Ident)
					if okY && okX && okB {
						v, known := g.vars[y.Name]
						if !known {
							g.x.fail(s, "gate stamps: type assertion on untracked value %s", y.Name)
							continue
						}
						if v.gql {
							g.vars[x.Name] = v
						} else {
							g.vars[x.Name] = gsVal{}
						}
						if b.Name != "_" {
							g.bools[b.Name] = v.gql
						}
						continue
					}
				}
				if c, ok := s.Rhs[0].(*ast.CallExpr); ok && len(s.Lhs) == 1 {
					if n, ok := sel(c.Fun, "gqlerror"); ok && (n == "Wrap" || n == "Errorf" || n == "WrapPath" || n == "ErrorPosf" || n == "ErrorPathf") {
						if x, ok := s.Lhs[0].(*ast.Ident); ok {
							g.vars[x.Name] = g.fresh()
							continue
						}
					}
				}
			}
			if g.tracked(s) {
				g.x.fail(s, "gate stamps: unknown assignment %q", g.src(s))
			}
		case *ast.ExprStmt:
			if c, ok := s.X.(*ast.CallExpr); ok {
				if n, ok := sel(c.Fun, "errcode"); ok && n == "Set" && len(c.Args) == 2 {
					x, okX := c.Args[0].(*ast.Ident)
					ce, okC := g.codeExpr(c.Args[1])
					if !okX || !okC {
						g.x.fail(s, "gate stamps: errcode.Set with unknown arguments %q", g.src(s))
						continue
					}
					v, known := g.vars[x.Name]
					if !known {
						g.x.fail(s, "gate stamps: errcode.Set on untracked value %s", x.Name)
						continue
					}
					if v.gql && v.id != 0 {
						g.code[v.id] = ce
					}
					continue
				}
			}
			if g.tracked(s) {
				g.x.fail(s, "gate stamps: unknown statement %q", g.src(s))
			}
		case *ast.IfStmt:
			cond, neg := s.Cond, false
			if u, ok := cond.(*ast.UnaryExpr); ok && u.Op == token.NOT {
				cond, neg = u.X, true
			}
			id, ok := cond.(*ast.Ident)
			if !ok || s.Init != nil {
				if g.tracked(s) {
					g.x.fail(s, "gate stamps: unknown condition %q", g.src(s.Cond))
				}
				continue
			}
			bv, known := g.bools[id.Name]
			if !known {
				if g.tracked(s) {
					g.x.fail(s, "gate stamps: condition on untracked %q", id.Name)
				}
				continue
			}
			if bv != neg {
				if r, done := g.block(s.Body.List); done {
					return r, true
				}
			} else if s.Else != nil {
				if eb, ok := s.Else.(*ast.BlockStmt); ok {
					if r, done := g.block(eb.List); done {
						return r, true
					}
				} else {
					g.x.fail(s, "gate stamps: else-if")
				}
			}
		case *ast.RangeStmt:
			l, okL := s.X.(*ast.Ident)
			e, okE := s.Value.(*ast.Ident)
			if okL && okE {
				if id, ok := g.lists[l.Name]; ok {
					g.vars[e.Name] = gsVal{id: id, gql: true}
					if r, done := g.block(s.Body.List); done {
						return r, true
					}
					delete(g.vars, e.Name)
					continue
				}
			}
			if g.tracked(s) {
				g.x.fail(s, "gate stamps: unknown loop %q", g.src(s.X))
			}
		case *ast.ReturnStmt:
			if len(s.Results) != 2 {
				g.x.fail(s, "gate stamps: exit does not return (value, error list)")
				return "none", true
			}
			opt := func(id int) string {
				if c, ok := g.code[id]; ok {
					return "(some " + c + ")"
				}
				return "none"
			}
			switch r := s.Results[1].(type) {
			case *ast.Ident:
				if id, ok := g.lists[r.Name]; ok {
					return opt(id), true
				}
			case *ast.CompositeLit:
				if g.src(r.Type) == "gqlerror.List" && len(r.Elts) == 1 {
					if x, ok := r.Elts[0].(*ast.Ident); ok {
						if v, ok := g.vars[x.Name]; ok && v.id != 0 && v.gql {
							return opt(v.id), true
						}
					}
				}
			}
			g.x.fail(s, "gate stamps: exit returns an error list the translator cannot follow: %q", g.src(s))
			return "none", true
		default:
			if g.tracked(s) {
				g.x.fail(s, "gate stamps: unknown statement %T", s)
			}
		}
	}
	return "", false
}

// gateStamps renders the stamp definitions; ex = graphql/executor/executor.go, ec = graphql/errcode/codes.go.
func gateStamps(x *hx, fset *token.FileSet, ex, ec *ast.File, consts map[string]string) string {
	env := func() *gsEnv {
		return &gsEnv{x: x, fset: fset, vars: map[string]gsVal{}, lists: map[string]int{}, bools: map[string]bool{}, code: map[int]string{}, next: 1, consts: consts}
	}
	// errcode.Set: stamps only a *gqlerror.Error (anything else is silently ignored)
	if set := funcDecl(ec, "", "Set"); set == nil {
		x.errs = append(x.errs, "errcode.Set not found")
	} else {
		g := env()
		src := g.src(set.Body)
		if !strings.Contains(src, "gqlErr, ok := err.(*gqlerror.Error)") || !strings.Contains(src, "if !ok { return }") ||
			!strings.Contains(src, `gqlErr.Extensions["code"] = value`) {
			x.fail(set, "errcode.Set has an unknown shape")
		}
	}
	find := func(fd *ast.FuncDecl, cond string, after string) *ast.IfStmt {
		if fd == nil || fd.Body == nil {
			return nil
		}
		g := env()
		seen := after == ""
		for _, st := range fd.Body.List {
			if !seen {
				seen = strings.Contains(g.src(st), after)
				continue
			}
			if is, ok := st.(*ast.IfStmt); ok && is.Init == nil && g.src(is.Cond) == cond {
				return is
			}
		}
		return nil
	}
	pq := funcDecl(ex, "Executor", "parseQuery")
	co := funcDecl(ex, "Executor", "CreateOperationContext")
	var b strings.Builder
	b.WriteString("/-! executor.go: the `extensions.code` carried by the error value each refusal exit of parseQuery /\n    CreateOperationContext RETURNS to the transport (the stamped value must be the returned value) -/\n")
	emit := func(name, doc string, is *ast.IfStmt, setup func(g *gsEnv)) {
		if is == nil {
			x.errs = append(x.errs, "gate stamps: exit for "+name+" not found in executor.go")
			return
		}
		g := env()
		setup(g)
		r, done := g.block(is.Body.List)
		if !done {
			x.fail(is, "gate stamps: the %s branch does not return", name)
			r = "none"
		}
		fmt.Fprintf(&b, "/-- %s -/\ndef %s : Option String := %s\n", doc, name, r)
	}
	parseIf := find(pq, "err != nil", "parser.ParseQuery")
	emit("stampParseGql", "parse error, the parser returned a *gqlerror.Error (syntax error)", parseIf, func(g *gsEnv) { g.vars["err"] = gsVal{1, true} })
	emit("stampParsePlain", "parse error, the parser returned a plain error (exceeded token limit, SetParserTokenLimit)", parseIf, func(g *gsEnv) { g.vars["err"] = gsVal{1, false} })
	emit("stampNoOperation", "document without operations", find(pq, "len(doc.Operations) == 0", ""), func(g *gsEnv) { g.vars["err"] = gsVal{} })
	emit("stampInvalid", "validation errors (every element of the returned list)", find(pq, "len(listErr) != 0", ""), func(g *gsEnv) { g.lists["listErr"] = 1 })
	emit("stampOpNotFound", "operationName names no operation", find(co, "opCtx.Operation == nil", ""), func(g *gsEnv) {})
	emit("stampVariables", "variables do not coerce (validator.VariableValues returns *gqlerror.Error values)", find(co, "err != nil", "validator.VariableValues("), func(g *gsEnv) { g.vars["err"] = gsVal{1, true} })
	b.WriteString("\n")
	return b.String()
}
