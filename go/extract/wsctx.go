package main

import (
	"bytes"
	"fmt"
	"go/ast"
	"go/printer"
	"go/token"
	"strconv"
	"strings"
)

// WsCtx: the life of the context values inside `wsConnection.subscribe` (websocket.go), in source order:
//
//   - every assignment that derives a context from another one (`ctx = f(parent, …)`,
//     `ctx, cancel := context.WithCancel(parent)`, `responses, ctx := c.exec.DispatchOperation(ctx, rc)`),
//     with the `if` conditions it is guarded by and whether it lies inside the operation goroutine,
//   - the registration of a cancel function in `c.active[…]`,
//   - every other call that is handed a context variable (the consumers: the executor, the response handler),
//   - every plain call of a cancel function (the deferred epilogue).
//
// The Lean side (Model/WsCtx.lean) replays these events for every valuation of the guards and the theorems of
// Props/C11.lean require that whatever the operation runs under descends from the context whose cancel function
// is registered - the fact behind the model's "stop / close cancel the operation's context".
//
// The translator refuses statement shapes in which a context variable could change unnoticed.

func init() { extractors["WsCtx"] = extractWsCtx }

// functions that return a context derived from their (first) context argument: index of the context
// result and of the cancel-function result (-1 = none)
var ctxDerivers = map[string][2]int{
	"graphql.StartOperationTrace":  {0, -1},
	"graphql.WithOperationContext": {0, -1},
	"withInitPayload":              {0, -1},
	"withSubscriptionErrorContext": {0, -1},
	"context.WithCancel":           {0, 1},
	"context.WithValue":            {0, -1},
	"context.WithTimeout":          {0, 1},
	"context.WithDeadline":         {0, 1},
	"c.exec.DispatchOperation":     {1, -1},
}

type ctxWalker struct {
	fset    *token.FileSet
	ctxVars map[string]bool
	cancels map[string]bool
	events  []string
	err     error
}

func (w *ctxWalker) src(n ast.Node) string {
	var b bytes.Buffer
	_ = printer.Fprint(&b, w.fset, n)
	return strings.Join(strings.Fields(b.String()), " ")
}

func (w *ctxWalker) fail(n ast.Node, format string, a ...any) {
	if w.err == nil {
		w.err = fmt.Errorf("subscribe, %s: %s", w.fset.Position(n.Pos()), fmt.Sprintf(format, a...))
	}
}

// ctxArg: the name of a context expression (`ctx`-like variable or the connection context `c.ctx`), "" if none
func (w *ctxWalker) ctxArg(e ast.Expr) string {
	switch x := e.(type) {
	case *ast.Ident:
		if w.ctxVars[x.Name] {
			return x.Name
		}
	case *ast.SelectorExpr:
		if identName(x.X) == "c" && x.Sel.Name == "ctx" {
			return "c.ctx"
		}
	}
	return ""
}

// a guard is a list of (condition, polarity); the markers "loop" / "deferred" / "case" always hold
func leanStrList(xs []string) string {
	ys := make([]string, len(xs))
	for i, x := range xs {
		pol := "true"
		if strings.HasPrefix(x, "!(") && strings.HasSuffix(x, ")") {
			pol = "false"
			x = x[2 : len(x)-1]
		}
		ys[i] = "(" + strconv.Quote(x) + ", " + pol + ")"
	}
	return "[" + strings.Join(ys, ", ") + "]"
}

// calls: consumer calls and nested derivations inside an expression (not the top-level call of an assignment)
func (w *ctxWalker) calls(n ast.Node, guards []string, inGo bool) {
	if n == nil {
		return
	}
	ast.Inspect(n, func(x ast.Node) bool {
		switch c := x.(type) {
		case *ast.FuncLit:
			return false
		case *ast.CallExpr:
			name := callName(c)
			if len(c.Args) == 0 && w.cancels[name] {
				w.events = append(w.events, fmt.Sprintf(".callCancel %s %s %v", strconv.Quote(name), leanStrList(guards), inGo))
				return true
			}
			for _, a := range c.Args {
				if v := w.ctxArg(a); v != "" {
					w.events = append(w.events, fmt.Sprintf(".use %s %s %s %v", strconv.Quote(name), strconv.Quote(v), leanStrList(guards), inGo))
				}
			}
		}
		return true
	})
}

func (w *ctxWalker) assign(as *ast.AssignStmt, guards []string, inGo bool) {
	// c.active[…] = cancel
	if len(as.Lhs) == 1 && len(as.Rhs) == 1 {
		if ix, ok := as.Lhs[0].(*ast.IndexExpr); ok && w.src(ix.X) == "c.active" {
			cv := identName(as.Rhs[0])
			if !w.cancels[cv] {
				w.fail(as, "c.active[…] is assigned %s, which is not the cancel function of a context derivation", w.src(as.Rhs[0]))
				return
			}
			w.events = append(w.events, fmt.Sprintf(".register %s %s %s %v", strconv.Quote(w.src(ix.Index)), strconv.Quote(cv), leanStrList(guards), inGo))
			return
		}
	}
	touchesCtx := false
	for _, l := range as.Lhs {
		if n := identName(l); w.ctxVars[n] || w.cancels[n] {
			touchesCtx = true
		}
	}
	call, isCall := (ast.Expr)(nil), false
	var ce *ast.CallExpr
	if len(as.Rhs) == 1 {
		ce, isCall = as.Rhs[0].(*ast.CallExpr)
		call = as.Rhs[0]
	}
	_ = call
	if isCall {
		name := callName(ce)
		if idx, ok := ctxDerivers[name]; ok {
			if len(as.Lhs) <= idx[0] || (idx[1] >= 0 && len(as.Lhs) <= idx[1]) {
				w.fail(as, "unexpected number of results for %s", name)
				return
			}
			lhs := identName(as.Lhs[idx[0]])
			if lhs == "" || lhs == "_" {
				w.fail(as, "the context returned by %s is not assigned to a variable", name)
				return
			}
			parent := ""
			if len(ce.Args) > 0 {
				parent = w.ctxArg(ce.Args[0])
			}
			if parent == "" {
				w.fail(as, "the parent context of %s is %s, which is not a tracked context", name, w.src(ce))
				return
			}
			cancel := "none"
			if idx[1] >= 0 {
				cv := identName(as.Lhs[idx[1]])
				if cv == "" || cv == "_" {
					w.fail(as, "the cancel function of %s is dropped", name)
					return
				}
				w.cancels[cv] = true
				cancel = "(some " + strconv.Quote(cv) + ")"
			}
			for _, a := range ce.Args[1:] {
				w.calls(a, guards, inGo)
			}
			w.ctxVars[lhs] = true
			w.events = append(w.events, fmt.Sprintf(".derive %s %s %s %s %s %v", strconv.Quote(lhs), strconv.Quote(name), strconv.Quote(parent), cancel, leanStrList(guards), inGo))
			return
		}
	}
	if touchesCtx {
		w.fail(as, "a context / cancel variable is assigned from %s, which is not a known context derivation", w.src(as))
		return
	}
	for _, r := range as.Rhs {
		w.calls(r, guards, inGo)
	}
}

func (w *ctxWalker) stmts(list []ast.Stmt, guards []string, inGo bool) {
	for _, st := range list {
		if w.err != nil {
			return
		}
		switch s := st.(type) {
		case *ast.AssignStmt:
			w.assign(s, guards, inGo)
		case *ast.IfStmt:
			if s.Init != nil {
				w.stmts([]ast.Stmt{s.Init}, guards, inGo)
			}
			w.calls(s.Cond, guards, inGo)
			g := append(append([]string{}, guards...), w.src(s.Cond))
			w.stmts(s.Body.List, g, inGo)
			switch e := s.Else.(type) {
			case nil:
			case *ast.BlockStmt:
				w.stmts(e.List, append(append([]string{}, guards...), "!("+w.src(s.Cond)+")"), inGo)
			case *ast.IfStmt:
				w.stmts([]ast.Stmt{e}, append(append([]string{}, guards...), "!("+w.src(s.Cond)+")"), inGo)
			}
		case *ast.GoStmt:
			fl, ok := s.Call.Fun.(*ast.FuncLit)
			if !ok || inGo {
				w.fail(s, "unexpected go statement")
				return
			}
			w.events = append(w.events, ".spawn")
			w.stmts(fl.Body.List, guards, true)
		case *ast.DeferStmt:
			// the epilogue runs when the goroutine ends: its calls are recorded (cancel(), consumers), it must not
			// re-assign a context
			if fl, ok := s.Call.Fun.(*ast.FuncLit); ok {
				w.events = append(w.events, ".deferred")
				w.stmts(fl.Body.List, append(append([]string{}, guards...), "deferred"), inGo)
			} else {
				w.calls(s.Call, append(append([]string{}, guards...), "deferred"), inGo)
			}
		case *ast.ForStmt:
			if s.Init != nil || s.Post != nil {
				w.fail(s, "unexpected for statement")
				return
			}
			w.calls(s.Cond, guards, inGo)
			w.stmts(s.Body.List, append(append([]string{}, guards...), "loop"), inGo)
		case *ast.RangeStmt:
			w.calls(s.X, guards, inGo)
			w.stmts(s.Body.List, append(append([]string{}, guards...), "loop"), inGo)
		case *ast.SwitchStmt:
			if s.Init != nil {
				w.stmts([]ast.Stmt{s.Init}, guards, inGo)
			}
			w.calls(s.Tag, guards, inGo)
			for _, cc := range s.Body.List {
				c := cc.(*ast.CaseClause)
				w.stmts(c.Body, append(append([]string{}, guards...), "case"), inGo)
			}
		case *ast.BlockStmt:
			w.stmts(s.List, guards, inGo)
		case *ast.ExprStmt:
			w.calls(s.X, guards, inGo)
		case *ast.ReturnStmt:
			for _, r := range s.Results {
				w.calls(r, guards, inGo)
			}
			w.events = append(w.events, fmt.Sprintf(".ret %s %v", leanStrList(guards), inGo))
		case *ast.DeclStmt:
			gd, ok := s.Decl.(*ast.GenDecl)
			if !ok {
				w.fail(s, "unexpected declaration")
				return
			}
			for _, sp := range gd.Specs {
				vs, ok := sp.(*ast.ValueSpec)
				if !ok {
					continue
				}
				for _, n := range vs.Names {
					if w.ctxVars[n.Name] || w.cancels[n.Name] {
						w.fail(s, "context variable %s is re-declared", n.Name)
						return
					}
				}
				for _, v := range vs.Values {
					w.calls(v, guards, inGo)
				}
			}
		case *ast.BranchStmt, *ast.EmptyStmt, *ast.IncDecStmt:
		default:
			w.fail(st, "statement shape %T not understood", st)
		}
	}
}

func extractWsCtx(repo string) (string, error) {
	fset, f, err := parseFile(repo, "websocket.go")
	if err != nil {
		return "", err
	}
	var fd *ast.FuncDecl
	for _, d := range f.Decls {
		if x, ok := d.(*ast.FuncDecl); ok && x.Name.Name == "subscribe" && x.Recv != nil {
			fd = x
		}
	}
	if fd == nil || fd.Recv.List[0].Names == nil || fd.Recv.List[0].Names[0].Name != "c" {
		return "", fmt.Errorf("func (c *wsConnection) subscribe not found")
	}
	w := &ctxWalker{fset: fset, ctxVars: map[string]bool{}, cancels: map[string]bool{}}
	w.stmts(fd.Body.List, nil, false)
	if w.err != nil {
		return "", w.err
	}
	var b strings.Builder
	b.WriteString(`namespace GqlgenVerif.Gen.WsCtx

/-- conditions of the enclosing ` + "`if`" + `s with their polarity -/
abbrev Guard := List (String × Bool)

/-- one context-relevant event of ` + "`wsConnection.subscribe`" + `, in source order.  ` + "`guard`" + `: the conditions of the
enclosing ` + "`if`" + `s with their polarity (plus the markers "loop" / "deferred" / "case"); ` + "`inGo`" + `: inside the
operation goroutine -/
inductive Ev where
  /-- ` + "`lhs(, cancel) :=/= fn(parent, …)`" + ` -/
  | derive (lhs fn parent : String) (cancel : Option String) (guard : Guard) (inGo : Bool)
  /-- ` + "`fn(…, arg, …)`" + ` with a context variable as argument (a consumer) -/
  | use (fn arg : String) (guard : Guard) (inGo : Bool)
  /-- ` + "`c.active[key] = cancel`" + ` -/
  | register (key cancel : String) (guard : Guard) (inGo : Bool)
  /-- ` + "`cancel()`" + ` -/
  | callCancel (cancel : String) (guard : Guard) (inGo : Bool)
  | ret (guard : Guard) (inGo : Bool)
  | spawn
  | deferred
  deriving DecidableEq, Repr

/-- websocket.go, ` + "`func (c *wsConnection) subscribe`" + ` -/
def subscribeCtx : List Ev := [
`)
	for i, e := range w.events {
		sep := ","
		if i == len(w.events)-1 {
			sep = ""
		}
		b.WriteString("  " + e + sep + "\n")
	}
	b.WriteString("]\n\nend GqlgenVerif.Gen.WsCtx\n")
	return b.String(), nil
}
