package main

import (
	"bytes"
	"fmt"
	"go/ast"
	"go/parser"
	"go/printer"
	"go/token"
	"os"
	"path/filepath"
	"strings"
)

// ParseGate (C10, request histories): WHERE `queryCache.Add` sits in
// /repo/graphql/executor/executor.go (*Executor).parseQuery relative to the three refusals of a document.
// A cache hit returns the cached document without validating it, so whatever is stored is executed on
// the next identical request; storing a document that was refused hands an unvalidated document
// (Field.Definition == nil) to gqlgen's own code: complexity.go dereferences it, the generated executor
// panics with "unknown field" - the recover hook runs although no user code panicked.
//
// Recognised shape (top-level statements of parseQuery, in this order; `stats.… = …` assignments and the
// `if e.disableSuggestion { … }` rule swap - which may neither return nor touch the cache - are skipped):
//
//	if doc, ok := e.queryCache.Get(ctx, query); ok { …; return doc, nil }      hit: no validate call inside
//	doc, err := parser.ParseQuery…(…)
//	if err != nil { …; return nil, … }                                         -> refusal `parse`
//	if len(doc.Operations) == 0 { …; return nil, … }                           -> refusal `nonEmpty`
//	listErr := validate(…, doc)
//	if len(listErr) != 0 { …; return nil, listErr }                            -> refusal `validate`
//	e.queryCache.Add(ctx, query, doc)                                          exactly one, unconditional
//	return doc, nil
//
// The Add may stand anywhere after the parse; the generated `Gate` records which refusals precede it.
// No other file of graphql/executor may call queryCache.Add / queryCache.Get. Anything else: exit 1.
func init() { extractors["ParseGate"] = extractParseGate }

func pgSrc(fset *token.FileSet, n ast.Node) string {
	var b bytes.Buffer
	printer.Fprint(&b, fset, n)
	return strings.Join(strings.Fields(b.String()), " ")
}

func pgReturns(fset *token.FileSet, n ast.Node) []string {
	var l []string
	ast.Inspect(n, func(m ast.Node) bool {
		switch r := m.(type) {
		case *ast.FuncLit:
			return false
		case *ast.ReturnStmt:
			l = append(l, pgSrc(fset, r))
		}
		return true
	})
	return l
}

func pgCount(fset *token.FileSet, n ast.Node, sub string) int {
	c := 0
	ast.Inspect(n, func(m ast.Node) bool {
		if call, ok := m.(*ast.CallExpr); ok && strings.Contains(pgSrc(fset, call.Fun), sub) {
			c++
		}
		return true
	})
	return c
}

func extractParseGate(repo string) (string, error) {
	dir := filepath.Join(repo, "graphql", "executor")
	fset := token.NewFileSet()
	ents, err := os.ReadDir(dir)
	if err != nil {
		return "", err
	}
	var pq *ast.FuncDecl
	adds, gets := 0, 0
	for _, ent := range ents {
		if !strings.HasSuffix(ent.Name(), ".go") || strings.HasSuffix(ent.Name(), "_test.go") {
			continue
		}
		f, err := parser.ParseFile(fset, filepath.Join(dir, ent.Name()), nil, 0)
		if err != nil {
			return "", err
		}
		adds += pgCount(fset, f, "queryCache.Add")
		gets += pgCount(fset, f, "queryCache.Get")
		for _, d := range f.Decls {
			if fd, ok := d.(*ast.FuncDecl); ok && fd.Name.Name == "parseQuery" && fd.Recv != nil && fd.Body != nil {
				pq = fd
			}
		}
	}
	if pq == nil {
		return "", fmt.Errorf("graphql/executor: (*Executor).parseQuery not found")
	}
	if adds != 1 || gets != 1 || pgCount(fset, pq, "queryCache.Add") != 1 || pgCount(fset, pq, "queryCache.Get") != 1 {
		return "", fmt.Errorf("graphql/executor: expected exactly one queryCache.Add and one queryCache.Get, both in parseQuery (found %d / %d)", adds, gets)
	}
	fail := func(n ast.Node, f string, a ...any) (string, error) {
		return "", fmt.Errorf("%s: parseQuery: %s", fset.Position(n.Pos()), fmt.Sprintf(f, a...))
	}
	const (
		sStart = iota
		sHit
		sParsed
		sParseChecked
		sNonEmptyChecked
		sValidated
		sValidateChecked
		sDone
	)
	state := sStart
	added := false
	var gate [3]bool // add dominated by: parse refusal, nonEmpty refusal, validate refusal
	var order []string
	for _, st := range pq.Body.List {
		src := pgSrc(fset, st)
		if state == sDone {
			return fail(st, "statement after the final return: %q", src)
		}
		switch s := st.(type) {
		case *ast.AssignStmt:
			switch {
			case strings.HasPrefix(src, "stats."):
				if strings.Contains(src, "queryCache") || strings.Contains(src, "doc") {
					return fail(st, "unexpected stats assignment %q", src)
				}
			case strings.HasPrefix(src, "doc, err := parser.ParseQuery"):
				if state != sHit {
					return fail(st, "the parse does not follow the cache lookup")
				}
				state = sParsed
				order = append(order, "parse")
			case strings.HasPrefix(src, "listErr := validate(") && strings.HasSuffix(src, ", doc)"):
				if state != sNonEmptyChecked {
					return fail(st, "validate(…, doc) does not follow the no-operation check")
				}
				state = sValidated
				order = append(order, "validate")
			default:
				return fail(st, "unknown assignment %q", src)
			}
		case *ast.IfStmt:
			if s.Else != nil {
				return fail(st, "if with else: %q", src)
			}
			cond := pgSrc(fset, s.Cond)
			rets := pgReturns(fset, s.Body)
			inner := pgCount(fset, s.Body, "queryCache.")
			switch {
			case s.Init != nil && pgSrc(fset, s.Init) == "doc, ok := e.queryCache.Get(ctx, query)" && cond == "ok":
				if state != sStart {
					return fail(st, "the cache lookup is not the first step")
				}
				if len(rets) != 1 || rets[0] != "return doc, nil" || inner != 0 {
					return fail(st, "the cache-hit branch is not `…; return doc, nil`: %v", rets)
				}
				if pgCount(fset, s.Body, "validate") != 0 || pgCount(fset, s.Body, "Validate") != 0 {
					return fail(st, "the cache-hit branch validates the document: not the modelled code")
				}
				if !pgEndsInReturn(s.Body) {
					return fail(st, "the cache-hit branch can fall through")
				}
				state = sHit
				order = append(order, "hit")
			case cond == "err != nil":
				if state != sParsed || s.Init != nil {
					return fail(st, "`if err != nil` does not follow the parse")
				}
				if len(rets) != 1 || !strings.HasPrefix(rets[0], "return nil, ") || !pgEndsInReturn(s.Body) || inner != 0 {
					return fail(st, "the parse-error branch has an unknown shape: %v", rets)
				}
				state = sParseChecked
				order = append(order, "refuse-parse")
				if !added {
					gate[0] = true
				}
			case cond == "len(doc.Operations) == 0":
				if state != sParseChecked || s.Init != nil {
					return fail(st, "the no-operation check does not follow the parse-error check")
				}
				if len(rets) != 1 || !strings.HasPrefix(rets[0], "return nil, ") || !pgEndsInReturn(s.Body) || inner != 0 {
					return fail(st, "the no-operation branch has an unknown shape: %v", rets)
				}
				state = sNonEmptyChecked
				order = append(order, "refuse-nonEmpty")
				if !added {
					gate[1] = true
				}
			case cond == "len(listErr) != 0":
				if state != sValidated || s.Init != nil {
					return fail(st, "`if len(listErr) != 0` does not follow validate")
				}
				if len(rets) != 1 || rets[0] != "return nil, listErr" || !pgEndsInReturn(s.Body) || inner != 0 {
					return fail(st, "the validation-error branch has an unknown shape: %v", rets)
				}
				state = sValidateChecked
				order = append(order, "refuse-validate")
				if !added {
					gate[2] = true
				}
			case cond == "e.disableSuggestion":
				if len(rets) != 0 || inner != 0 || strings.Contains(pgSrc(fset, s.Body), "doc") {
					return fail(st, "the disableSuggestion block returns, touches the cache or the document")
				}
			default:
				return fail(st, "unknown if statement with condition %q", cond)
			}
		case *ast.ExprStmt:
			if src != "e.queryCache.Add(ctx, query, doc)" {
				return fail(st, "unknown statement %q", src)
			}
			if state < sParsed {
				return fail(st, "queryCache.Add before the document exists")
			}
			if added {
				return fail(st, "second queryCache.Add")
			}
			added = true
			order = append(order, "add")
		case *ast.ReturnStmt:
			if src != "return doc, nil" || state != sValidateChecked {
				return fail(st, "unknown return %q (or not after the validation check)", src)
			}
			state = sDone
			order = append(order, "return")
		default:
			return fail(st, "unknown statement %q", src)
		}
	}
	if state != sDone || !added {
		return "", fmt.Errorf("graphql/executor: parseQuery: steps %v: no unconditional queryCache.Add before the final `return doc, nil`", order)
	}
	var b strings.Builder
	b.WriteString("import GqlgenVerif.Model.ReqHist\nnamespace GqlgenVerif.Gen.ParseGate\nopen GqlgenVerif.ReqHist\n\n")
	fmt.Fprintf(&b, "/-- graphql/executor/executor.go (*Executor).parseQuery, top-level steps in source order: %s -/\n", strings.Join(order, ", "))
	fmt.Fprintf(&b, "def gate : Gate :=\n  { addAfterParse := %v, addAfterNonEmpty := %v, addAfterValidate := %v }\n\n", gate[0], gate[1], gate[2])
	fmt.Fprintf(&b, "def steps : List String := [%s]\n\n", quoteList(order))
	b.WriteString("end GqlgenVerif.Gen.ParseGate\n")
	return b.String(), nil
}

func quoteList(l []string) string {
	var p []string
	for _, s := range l {
		p = append(p, fmt.Sprintf("%q", s))
	}
	return strings.Join(p, ", ")
}

// pgEndsInReturn: the block's last statement is a return
func pgEndsInReturn(b *ast.BlockStmt) bool {
	if len(b.List) == 0 {
		return false
	}
	_, ok := b.List[len(b.List)-1].(*ast.ReturnStmt)
	return ok
}
