package main

// C19 (round 6): facts about HOW user imports are re-reserved and WHICH bytes the rewriter slices.
//
//	codegen/templates/import.go  (*Imports).Reserve
//	    name := s.packages.NameForPackage(path)
//	    var alias string; if len(aliases) != 1 { alias = name } else { alias = aliases[0] }
//	    if existing := s.findByPath(path); existing != nil { if existing.Alias == alias { return "", nil }; return "", errors.New(..) }
//	    if X := s.findByAlias(KEY); X != nil { return "", errors.New(..) }          -> collisionKey (alias | name)
//	      optionally under `if alias != "_" && alias != "." { ... }`              -> collisionExempt (the literals; [] without)
//	    s.imports = append(s.imports, &Import{Name: name, Path: path, Alias: alias})
//	  findByPath / findByAlias compare imp.Path / imp.Alias with their parameter.
//	internal/rewrite/rewriter.go  (*Rewriter).getFile
//	    b, err := os.ReadFile(filename) ... r.files[filename] = FORM                -> cacheForm
//	        string(b)                                      raw
//	        strings.ReplaceAll(string(b), "\r\n", "\n")    crlfToLf
//	  (getSource slicing that string with token.Position offsets is checked by rewriteoffsets.go.)
//
// Anything else is refused (broken tie).

import (
	"fmt"
	"go/ast"
	"go/parser"
	"go/token"
	"path/filepath"
	"strconv"
	"strings"
)

func init() { extractors["ReserveFacts"] = extractReserveFacts }

func rfMethod(f *ast.File, recv, name string) *ast.FuncDecl {
	for _, d := range f.Decls {
		fd, ok := d.(*ast.FuncDecl)
		if !ok || fd.Name.Name != name || fd.Recv == nil || len(fd.Recv.List) != 1 || fd.Body == nil {
			continue
		}
		t := fd.Recv.List[0].Type
		if st, ok := t.(*ast.StarExpr); ok {
			t = st.X
		}
		if id, ok := t.(*ast.Ident); ok && id.Name == recv {
			return fd
		}
	}
	return nil
}

// rfFinder checks `for _, imp := range s.imports { if imp.<field> == <param> { return imp } }; return nil`.
func rfFinder(f *ast.File, name, field string) error {
	fd := rfMethod(f, "Imports", name)
	if fd == nil || len(fd.Type.Params.List) != 1 || len(fd.Type.Params.List[0].Names) != 1 || len(fd.Body.List) != 2 {
		return fmt.Errorf("import.go: %s: unknown shape", name)
	}
	param := fd.Type.Params.List[0].Names[0].Name
	rs, ok := fd.Body.List[0].(*ast.RangeStmt)
	if !ok || roSel(rs.X) != "s.imports" || len(rs.Body.List) != 1 {
		return fmt.Errorf("import.go: %s no longer ranges over s.imports", name)
	}
	v, _ := rs.Value.(*ast.Ident)
	ifs, ok := rs.Body.List[0].(*ast.IfStmt)
	if !ok || v == nil || ifs.Init != nil || ifs.Else != nil || len(ifs.Body.List) != 1 {
		return fmt.Errorf("import.go: %s: unknown loop body", name)
	}
	be, ok := ifs.Cond.(*ast.BinaryExpr)
	if !ok || be.Op != token.EQL || roSel(be.X) != v.Name+"."+field || roSel(be.Y) != param {
		return fmt.Errorf("import.go: %s no longer compares imp.%s with its parameter", name, field)
	}
	ret, ok := ifs.Body.List[0].(*ast.ReturnStmt)
	if !ok || len(ret.Results) != 1 || roSel(ret.Results[0]) != v.Name {
		return fmt.Errorf("import.go: %s no longer returns the matching import", name)
	}
	return nil
}

func rfReturnsError(b *ast.BlockStmt) bool {
	if len(b.List) == 0 {
		return false
	}
	ret, ok := b.List[len(b.List)-1].(*ast.ReturnStmt)
	if !ok || len(ret.Results) != 2 {
		return false
	}
	c, ok := ret.Results[1].(*ast.CallExpr)
	return ok && (roSel(c.Fun) == "errors.New" || roSel(c.Fun) == "fmt.Errorf")
}

// rfExemptConj reads `alias != "a" && alias != "b" && ...` (string literals only) and returns the literals.
func rfExemptConj(e ast.Expr) ([]string, bool) {
	be, ok := e.(*ast.BinaryExpr)
	if !ok {
		return nil, false
	}
	if be.Op == token.LAND {
		l, ok1 := rfExemptConj(be.X)
		r, ok2 := rfExemptConj(be.Y)
		if !ok1 || !ok2 {
			return nil, false
		}
		return append(l, r...), true
	}
	lit, ok := be.Y.(*ast.BasicLit)
	if be.Op != token.NEQ || roSel(be.X) != "alias" || !ok || lit.Kind != token.STRING {
		return nil, false
	}
	v, err := strconv.Unquote(lit.Value)
	if err != nil {
		return nil, false
	}
	return []string{v}, true
}

func extractReserveFacts(repo string) (string, error) {
	fset := token.NewFileSet()
	impf, err := parser.ParseFile(fset, filepath.Join(repo, "codegen/templates/import.go"), nil, 0)
	if err != nil {
		return "", err
	}
	if err := rfFinder(impf, "findByPath", "Path"); err != nil {
		return "", err
	}
	if err := rfFinder(impf, "findByAlias", "Alias"); err != nil {
		return "", err
	}
	res := rfMethod(impf, "Imports", "Reserve")
	if res == nil {
		return "", fmt.Errorf("import.go: (*Imports).Reserve not found")
	}
	sawName, sawAliasChoice, sawPath, sawAppend := false, false, false, false
	key := ""
	var exempt []string // nil: the collision test is unconditional
	nAliasCalls := 0
	ast.Inspect(res.Body, func(n ast.Node) bool {
		if c, ok := n.(*ast.CallExpr); ok && roSel(c.Fun) == "s.findByAlias" {
			nAliasCalls++
		}
		return true
	})
	for _, st := range res.Body.List {
		switch st := st.(type) {
		case *ast.AssignStmt:
			if len(st.Lhs) == 1 && len(st.Rhs) == 1 && roSel(st.Lhs[0]) == "name" && st.Tok == token.DEFINE {
				if c, ok := st.Rhs[0].(*ast.CallExpr); ok && roSel(c.Fun) == "s.packages.NameForPackage" && len(c.Args) == 1 && roSel(c.Args[0]) == "path" {
					sawName = true
				}
			}
			if len(st.Lhs) == 1 && len(st.Rhs) == 1 && roSel(st.Lhs[0]) == "s.imports" && st.Tok == token.ASSIGN {
				c, ok := st.Rhs[0].(*ast.CallExpr)
				if !ok || roSel(c.Fun) != "append" || len(c.Args) != 2 || roSel(c.Args[0]) != "s.imports" {
					return "", fmt.Errorf("import.go: Reserve: unknown append")
				}
				u, ok := c.Args[1].(*ast.UnaryExpr)
				if !ok || u.Op != token.AND {
					return "", fmt.Errorf("import.go: Reserve: unknown appended value")
				}
				cl, ok := u.X.(*ast.CompositeLit)
				if !ok || roSel(cl.Type) != "Import" || len(cl.Elts) != 3 {
					return "", fmt.Errorf("import.go: Reserve: unknown appended value")
				}
				want := map[string]string{"Name": "name", "Path": "path", "Alias": "alias"}
				for _, e := range cl.Elts {
					kv, ok := e.(*ast.KeyValueExpr)
					if !ok || want[roSel(kv.Key)] == "" || want[roSel(kv.Key)] != roSel(kv.Value) {
						return "", fmt.Errorf("import.go: Reserve no longer appends &Import{Name: name, Path: path, Alias: alias}")
					}
				}
				sawAppend = true
			}
		case *ast.IfStmt:
			// alias = name | aliases[0]
			if be, ok := st.Cond.(*ast.BinaryExpr); ok && st.Init == nil && be.Op == token.NEQ {
				if c, ok := be.X.(*ast.CallExpr); ok && roSel(c.Fun) == "len" && len(c.Args) == 1 && roSel(c.Args[0]) == "aliases" {
					lit, _ := be.Y.(*ast.BasicLit)
					eb, _ := st.Else.(*ast.BlockStmt)
					if lit == nil || lit.Value != "1" || eb == nil || len(st.Body.List) != 1 || len(eb.List) != 1 {
						return "", fmt.Errorf("import.go: Reserve: unknown choice of the alias")
					}
					a1, ok1 := st.Body.List[0].(*ast.AssignStmt)
					a2, ok2 := eb.List[0].(*ast.AssignStmt)
					if !ok1 || !ok2 || roSel(a1.Lhs[0]) != "alias" || roSel(a1.Rhs[0]) != "name" || roSel(a2.Lhs[0]) != "alias" {
						return "", fmt.Errorf("import.go: Reserve: unknown choice of the alias")
					}
					ix, ok := a2.Rhs[0].(*ast.IndexExpr)
					if !ok || roSel(ix.X) != "aliases" {
						return "", fmt.Errorf("import.go: Reserve: unknown choice of the alias")
					}
					if l, ok := ix.Index.(*ast.BasicLit); !ok || l.Value != "0" {
						return "", fmt.Errorf("import.go: Reserve: unknown choice of the alias")
					}
					sawAliasChoice = true
					continue
				}
			}
			// if alias != "_" && alias != "." { <alias guard> }: the aliases that are exempt from the collision test
			if lits, ok := rfExemptConj(st.Cond); ok && st.Init == nil {
				var inner *ast.IfStmt
				if len(st.Body.List) == 1 {
					inner, _ = st.Body.List[0].(*ast.IfStmt)
				}
				if st.Else != nil || inner == nil || exempt != nil || key != "" {
					return "", fmt.Errorf("import.go: Reserve: unknown statement under the test of the alias against %v", lits)
				}
				ias, ok := inner.Init.(*ast.AssignStmt)
				if !ok || len(ias.Lhs) != 1 || len(ias.Rhs) != 1 {
					return "", fmt.Errorf("import.go: Reserve: unknown statement under the test of the alias against %v", lits)
				}
				if c, ok := ias.Rhs[0].(*ast.CallExpr); !ok || roSel(c.Fun) != "s.findByAlias" || len(c.Args) != 1 {
					return "", fmt.Errorf("import.go: Reserve: the test of the alias against %v no longer guards the findByAlias collision test", lits)
				}
				exempt = lits
				st = inner
			}
			as, ok := st.Init.(*ast.AssignStmt)
			if !ok || len(as.Lhs) != 1 || len(as.Rhs) != 1 {
				continue
			}
			c, ok := as.Rhs[0].(*ast.CallExpr)
			if !ok || len(c.Args) != 1 {
				continue
			}
			v := roSel(as.Lhs[0])
			be, ok := st.Cond.(*ast.BinaryExpr)
			if !ok || be.Op != token.NEQ || roSel(be.X) != v || roSel(be.Y) != "nil" || st.Else != nil {
				if roSel(c.Fun) == "s.findByPath" || roSel(c.Fun) == "s.findByAlias" {
					return "", fmt.Errorf("import.go: Reserve: unknown guard around %s", roSel(c.Fun))
				}
				continue
			}
			switch roSel(c.Fun) {
			case "s.findByPath":
				// if existing.Alias == alias { return "", nil }; return "", error
				if roSel(c.Args[0]) != "path" || len(st.Body.List) != 2 || !rfReturnsError(st.Body) {
					return "", fmt.Errorf("import.go: Reserve: unknown shape of the same-path guard")
				}
				in, ok := st.Body.List[0].(*ast.IfStmt)
				if !ok {
					return "", fmt.Errorf("import.go: Reserve: unknown shape of the same-path guard")
				}
				ib, ok := in.Cond.(*ast.BinaryExpr)
				if !ok || ib.Op != token.EQL || roSel(ib.X) != v+".Alias" || roSel(ib.Y) != "alias" {
					return "", fmt.Errorf("import.go: Reserve: the same-path guard no longer compares existing.Alias with alias")
				}
				if key != "" {
					return "", fmt.Errorf("import.go: Reserve: the path guard no longer precedes the alias guard")
				}
				sawPath = true
			case "s.findByAlias":
				if !rfReturnsError(st.Body) || len(st.Body.List) != 1 || key != "" {
					return "", fmt.Errorf("import.go: Reserve: unknown shape of the alias-collision guard")
				}
				switch roSel(c.Args[0]) {
				case "alias":
					key = ".alias"
				case "name":
					key = ".name"
				default:
					return "", fmt.Errorf("import.go: Reserve: findByAlias is called with %q, neither alias nor name", roSel(c.Args[0]))
				}
				if sawAppend {
					return "", fmt.Errorf("import.go: Reserve: the alias guard no longer precedes the append")
				}
			}
		}
	}
	if !sawName || !sawAliasChoice || !sawPath || !sawAppend || key == "" || nAliasCalls != 1 {
		return "", fmt.Errorf("import.go: Reserve: unknown shape (name:%v alias choice:%v path guard:%v append:%v alias guard:%q findByAlias calls:%d)",
			sawName, sawAliasChoice, sawPath, sawAppend, key, nAliasCalls)
	}

	// ---- getFile
	rwf, err := parser.ParseFile(fset, filepath.Join(repo, "internal/rewrite/rewriter.go"), nil, 0)
	if err != nil {
		return "", err
	}
	gf := rfMethod(rwf, "Rewriter", "getFile")
	if gf == nil {
		return "", fmt.Errorf("rewriter.go: getFile not found")
	}
	form := ""
	nStores, sawRead := 0, false
	isStringB := func(e ast.Expr) bool {
		c, ok := e.(*ast.CallExpr)
		return ok && roSel(c.Fun) == "string" && len(c.Args) == 1 && roSel(c.Args[0]) == "b"
	}
	var ferr error
	ast.Inspect(gf.Body, func(n ast.Node) bool {
		as, ok := n.(*ast.AssignStmt)
		if !ok || len(as.Lhs) < 1 || len(as.Rhs) != 1 {
			return true
		}
		if c, ok := as.Rhs[0].(*ast.CallExpr); ok && roSel(as.Lhs[0]) == "b" && roSel(c.Fun) == "os.ReadFile" && len(c.Args) == 1 && roSel(c.Args[0]) == "filename" {
			sawRead = true
		}
		ix, ok := as.Lhs[0].(*ast.IndexExpr)
		if !ok || roSel(ix.X) != "r.files" {
			if roSel(as.Lhs[0]) == "b" && !sawRead {
				ferr = fmt.Errorf("rewriter.go: getFile: b is assigned something other than os.ReadFile(filename)")
			}
			return true
		}
		nStores++
		if roSel(ix.Index) != "filename" || as.Tok != token.ASSIGN {
			ferr = fmt.Errorf("rewriter.go: getFile: unknown store into r.files")
			return true
		}
		rhs := as.Rhs[0]
		switch {
		case isStringB(rhs):
			form = ".raw"
		default:
			if c, ok := rhs.(*ast.CallExpr); ok && roSel(c.Fun) == "strings.ReplaceAll" && len(c.Args) == 3 && isStringB(c.Args[0]) {
				a, _ := c.Args[1].(*ast.BasicLit)
				b, _ := c.Args[2].(*ast.BasicLit)
				if a != nil && b != nil && a.Value == `"\r\n"` && b.Value == `"\n"` {
					form = ".crlfToLf"
					return true
				}
			}
			ferr = fmt.Errorf("rewriter.go: getFile caches neither string(b) nor a CRLF-normalised copy of it")
		}
		return true
	})
	if ferr != nil {
		return "", ferr
	}
	if !sawRead || nStores != 1 || form == "" {
		return "", fmt.Errorf("rewriter.go: getFile: unknown shape (ReadFile:%v stores:%d)", sawRead, nStores)
	}
	// the cached text must be what getFile returns and what getSource slices (the slice itself: rewriteoffsets.go)
	okRet := false
	for _, st := range gf.Body.List {
		if r, ok := st.(*ast.ReturnStmt); ok && len(r.Results) == 1 {
			if ix, ok := r.Results[0].(*ast.IndexExpr); ok && roSel(ix.X) == "r.files" && roSel(ix.Index) == "filename" {
				okRet = true
			}
		}
	}
	if !okRet {
		return "", fmt.Errorf("rewriter.go: getFile no longer returns r.files[filename]")
	}

	var b strings.Builder
	b.WriteString("/-! Facts re-read from codegen/templates/import.go (Reserve) and internal/rewrite/rewriter.go (getFile) (C19, round 6). -/\n")
	b.WriteString("namespace GqlgenVerif.Gen.ReserveFacts\n\n")
	b.WriteString("/-- what `(*Imports).Reserve` looks up with findByAlias before it appends `&Import{Name: name, Path: path, Alias: alias}` -/\n")
	b.WriteString("inductive CollisionKey\n  | alias  -- the name the import will have in the file (the explicit alias, else the package name)\n  | name   -- the package's real name, whatever the alias\n  deriving DecidableEq, Repr\n\n")
	fmt.Fprintf(&b, "def collisionKey : CollisionKey := %s\n\n", key)
	b.WriteString("/-- the aliases `Reserve` does NOT look up with findByAlias (`if alias != \"_\" && alias != \".\" { <collision test> }`;\n[] = the collision test is unconditional, the shape before the repair of F19h) -/\n")
	qs := []string{}
	for _, e := range exempt {
		qs = append(qs, strconv.Quote(e))
	}
	fmt.Fprintf(&b, "def collisionExempt : List String := [%s]\n\n", strings.Join(qs, ", "))
	b.WriteString("/-- what `(*Rewriter).getFile` caches for a file, as a function of the bytes os.ReadFile returned; getSource slices\nTHAT text with the byte offsets go/parser computed on the bytes themselves -/\n")
	b.WriteString("inductive CacheForm\n  | raw       -- string(b)\n  | crlfToLf  -- strings.ReplaceAll(string(b), \"\\r\\n\", \"\\n\")\n  deriving DecidableEq, Repr\n\n")
	fmt.Fprintf(&b, "def cacheForm : CacheForm := %s\n\n", form)
	b.WriteString("end GqlgenVerif.Gen.ReserveFacts\n")
	return b.String(), nil
}
